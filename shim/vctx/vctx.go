// Package vctx mirrors package context; cancel functions are scheduling points.
package vctx

import (
	"context"
	"time"

	"github.com/aperturerobotics/util/zzverif/vsched"
)

type (
	Context         = context.Context
	CancelFunc      = context.CancelFunc
	CancelCauseFunc = context.CancelCauseFunc
)

var (
	Canceled         = context.Canceled
	DeadlineExceeded = context.DeadlineExceeded
)

func Background() Context { return context.Background() }
func TODO() Context       { return context.TODO() }

func WithCancel(p Context) (Context, CancelFunc) {
	vsched.PointOp(vsched.OpWithCancel)
	c, cancel := context.WithCancel(p)
	return c, func() { vsched.PointOp(vsched.OpCancel); cancel() }
}

func WithCancelCause(p Context) (Context, CancelCauseFunc) {
	vsched.PointOp(vsched.OpWithCancel)
	c, cancel := context.WithCancelCause(p)
	return c, func(e error) { vsched.PointOp(vsched.OpCancel); cancel(e) }
}

// WithTimeout / WithDeadline: the deadline never expires by itself (no real clock);
// only the explicit cancel is modelled.
func WithTimeout(p Context, d time.Duration) (Context, CancelFunc) { return WithCancel(p) }

// WithDeadline: no clock exists under the scheduler, so a deadline in the future never passes (the
// context behaves like WithCancel); a deadline that lies before the shim's fixed "now" yields a real,
// already expired context (Err() == DeadlineExceeded), which needs no timer.
func WithDeadline(p Context, t time.Time) (Context, CancelFunc) {
	if t.Before(time.Unix(1700000000, 0)) {
		return context.WithDeadline(p, t)
	}
	return WithCancel(p)
}
func WithValue(p Context, k, v any) Context            { return context.WithValue(p, k, v) }
func WithoutCancel(p Context) Context                  { return context.WithoutCancel(p) }
func Cause(c Context) error                            { return context.Cause(c) }
func AfterFunc(c Context, f func()) (stop func() bool) { panic("vctx.AfterFunc unsupported") }
