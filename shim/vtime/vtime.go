// Package vtime mirrors the timer parts of package time. A timer is a parked managed
// thread; no real clock is ever read.
package vtime

import (
	"time"

	"github.com/aperturerobotics/util/zzverif/vsched"
)

type (
	Duration = time.Duration
	Time     = time.Time
	Month    = time.Month
	Weekday  = time.Weekday
	Location = time.Location
)

const (
	Nanosecond  = time.Nanosecond
	Microsecond = time.Microsecond
	Millisecond = time.Millisecond
	Second      = time.Second
	Minute      = time.Minute
	Hour        = time.Hour
)

type Timer struct {
	C  <-chan Time
	ts *vsched.TimerState
	f  func()
}

func AfterFunc(d Duration, f func()) *Timer {
	t := &Timer{ts: vsched.NewTimer(f), f: f}
	vsched.NoteTimerDur(int64(d))
	return t
}

func (t *Timer) Stop() bool {
	vsched.PointOp(vsched.OpTimerStop)
	return t.ts.Stop()
}

// Reset re-arms the timer: the pending firing (if any) is cancelled and a new one is scheduled.
func (t *Timer) Reset(d Duration) bool {
	vsched.PointOp(vsched.OpTimerStop)
	active := t.ts.Stop()
	t.ts = vsched.NewTimer(t.f)
	vsched.NoteTimerDur(int64(d))
	return active
}

// Sleep parks the calling thread until the scheduler decides the (virtual) timer fires.
func Sleep(d Duration) { vsched.Recv1(NewTimer(d).C) }

func NewTimer(d Duration) *Timer {
	ch := make(chan Time, 1)
	f := func() { vsched.Send(ch, Time{}) }
	t := &Timer{C: ch, ts: vsched.NewTimer(f), f: f}
	vsched.NoteTimerDur(int64(d))
	return t
}

func After(d Duration) <-chan Time { return NewTimer(d).C }

// Now/Since: a fixed instant, no real clock.
func Now() Time                                { return time.Unix(1700000000, 0) }
func Since(t Time) Duration                    { return Now().Sub(t) }
func Until(t Time) Duration                    { return t.Sub(Now()) }
func Unix(s, ns int64) Time                    { return time.Unix(s, ns) }
func UnixMilli(ms int64) Time                  { return time.UnixMilli(ms) }
func ParseDuration(s string) (Duration, error) { return time.ParseDuration(s) }
