package vsched

import (
	"fmt"
	"reflect"
	"sort"
	"unsafe"
)

// MapKeys returns the keys of m in a canonical order (basic kinds by value, pointers by
// creation index as registered through Reg). With MapDev the explorer may rotate the
// order (each non-zero rotation is one environment deviation).
func MapKeys[M ~map[K]V, K comparable, V any](m M) []K {
	ks := make([]K, 0, len(m))
	for k := range m {
		ks = append(ks, k)
	}
	sort.Slice(ks, func(i, j int) bool { return less(ks[i], ks[j]) })
	if r := chooseDev(len(ks)); r > 0 {
		ks = append(append(make([]K, 0, len(ks)), ks[r:]...), ks[:r]...)
	}
	return ks
}

func less(a, b any) bool {
	va, vb := reflect.ValueOf(a), reflect.ValueOf(b)
	switch va.Kind() {
	case reflect.String:
		return va.String() < vb.String()
	case reflect.Int, reflect.Int8, reflect.Int16, reflect.Int32, reflect.Int64:
		return va.Int() < vb.Int()
	case reflect.Uint, reflect.Uint8, reflect.Uint16, reflect.Uint32, reflect.Uint64, reflect.Uintptr:
		return va.Uint() < vb.Uint()
	case reflect.Pointer:
		ia, ib := regIndex(unsafe.Pointer(va.Pointer())), regIndex(unsafe.Pointer(vb.Pointer()))
		if ia != ib {
			return ia < ib
		}
		return va.Pointer() < vb.Pointer()
	}
	return fmt.Sprint(a) < fmt.Sprint(b)
}
