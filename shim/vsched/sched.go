// Package vsched is the controlled scheduler used by the /verif model checker.
//
// It is injected into the build as the virtual package
// github.com/aperturerobotics/util/zzverif/vsched through `go build -overlay`.
//
// Discipline: every function touching scheduler state is //go:norace and uses only
// fixed arrays / plain words (no append, map or copy on shared state: those runtime
// helpers carry race hooks), so the race detector sees none of the hand-offs and a
// -race build of the very same harness observes exactly the happens-before relation
// of the program under test.
package vsched

import (
	"runtime"
	"sync/atomic"
	"unsafe"
)

const (
	MaxT     = 64
	MaxSteps = 1 << 14
	MaxObs   = 1 << 12
	MaxCase  = 8
	MaxTrace = 1 << 13
	NCtr     = 256
	NCell    = 64
	MaxReg   = 1 << 12
)

type waitKind int32

const (
	wNone waitKind = iota
	wMutex
	wRW
	wChans
	wGate
	wSettle
	wTimer
	wWG
)

// choice kinds
const (
	KSched  = 0
	KSelect = 1
	KChoose = 2
	KDev    = 3 // environment deviation (non-canonical map order): costs one deviation
)

// end reasons
const (
	EndComplete  = 0 // every thread finished
	EndQuiescent = 1 // no thread enabled, some parked
	EndHorizon   = 2 // point horizon exceeded with several runnable threads
	EndFail      = 3 // oracle failure
	EndDiverge   = 4 // replay divergence / infrastructure problem
	EndPanic     = 5 // a managed thread panicked
	EndLivelock  = 6 // horizon exceeded while exactly one thread was runnable
)

// operation codes (for traces)
const (
	OpPoint = iota
	OpLock
	OpUnlock
	OpUnlocked
	OpTryLock
	OpRLock
	OpRUnlock
	OpAtomic
	OpSelect
	OpSelectNB
	OpRecv
	OpSend
	OpClose
	OpCtxErr
	OpCtxDone
	OpCancel
	OpGo
	OpTimerArm
	OpTimerStop
	OpGate
	OpSettle
	OpExit
	OpWithCancel
	OpHarness
	OpWG
	OpStart
	OpAfter
)

var OpNames = [...]string{"point", "Lock", "Unlock", "unlocked", "TryLock", "RLock", "RUnlock", "atomic", "select", "select-nb", "recv", "send", "close", "ctx.Err", "ctx.Done", "cancel", "go", "timer-arm", "timer-stop", "gate", "settle", "exit", "WithCancel", "harness", "waitgroup", "start", "after"}

type Case struct {
	P    unsafe.Pointer
	Send bool
}

type Gate struct{ open bool }

type TimerState struct {
	fired   bool // callback thread has been released (Stop returns false from now on)
	stopped bool
	manual  bool
	seq     int32
}

type Thread struct {
	ID       int32
	Name     string
	started  bool
	exited   bool
	wk       waitKind
	wword    *int32
	wword2   *int32 // RWMutex: announced writers (readers wait while it is > 0)
	wwrite   bool
	wcases   [MaxCase]Case
	ncases   int32
	wgate    *Gate
	wtimer   *TimerState
	Label    string
	panicked bool
	PanicVal any
	PanicStk string
	isTimer  bool
	synced   bool
}

type hchanHdr struct {
	qcount   uint
	dataqsiz uint
	buf      unsafe.Pointer
	elemsize uint16
	closed   uint32
}

type Obs struct {
	Kind    int32
	T       int32
	A, B, C int64
}

type TraceEv struct {
	T    int32
	Op   int32
	Step int32
	PC   [14]uintptr
}

var (
	cur        int32 = -1
	aborting         = true
	abortPhase int32
	ending     bool

	threads  [MaxT]*Thread
	nthreads int32
	curT     *Thread

	prefix  [MaxSteps]int32
	nprefix int32
	taken   [MaxSteps]int32
	nopts   [MaxSteps]int32
	ckind   [MaxSteps]int8
	cpre    [MaxSteps]bool // for KSched: running thread was enabled (alternatives are preemptions)
	step    int32
	npoints int32
	horizon int32

	EndReason  int32
	FailOracle string
	FailMsg    string

	obs  [MaxObs]Obs
	nobs int32
	ctrs [NCtr]int64

	quiescent    func() bool
	timerSeq     int32
	NFired       int32
	TimersManual bool
	Det          bool // deterministic scheduling: schedule/select choices always take option 0 and are not recorded
	MapDev       bool // map iteration order is an explorer (deviation) choice

	Tracing bool
	trace   [MaxTrace]TraceEv
	ntrace  int32

	cells [NCell]any

	regPtr [MaxReg]unsafe.Pointer
	nreg   int32
)

// tearSync is touched with real atomic read-modify-writes only around teardown and at
// thread exit. It orders (for the race detector) everything a thread did during the
// execution before the deferred library code that runs unsynchronised - every shim
// operation is a no-op then - while the threads are torn down one by one.
var tearSync int32

//go:norace
func waitTurn(t *Thread) bool {
	for {
		for cur != t.ID {
			runtime.Gosched()
		}
		if aborting && abortPhase == 1 {
			// phase 1: publish this thread's history, then keep waiting
			atomic.AddInt32(&tearSync, 1)
			t.synced = true
			cur = -1
			continue
		}
		break
	}
	if aborting {
		atomic.AddInt32(&tearSync, 1)
	}
	curT = t
	return !aborting
}

//go:norace
func chanReady(c Case) bool {
	if c.P == nil {
		return false
	}
	h := (*hchanHdr)(c.P)
	if c.Send {
		return h.closed != 0 || h.qcount < h.dataqsiz
	}
	return h.closed != 0 || h.qcount > 0
}

//go:norace
func othersIdle(me *Thread) bool {
	for i := int32(0); i < nthreads; i++ {
		o := threads[i]
		if o != me && o.wk != wSettle && enabled(o) {
			return false
		}
	}
	return true
}

//go:norace
func enabled(t *Thread) bool {
	if t.exited {
		return false
	}
	switch t.wk {
	case wNone:
		return true
	case wMutex:
		return *t.wword == 0
	case wRW:
		if t.wwrite {
			return *t.wword == 0
		}
		return *t.wword >= 0 && (t.wword2 == nil || *t.wword2 == 0)
	case wWG:
		return *t.wword <= 0
	case wChans:
		for i := int32(0); i < t.ncases; i++ {
			if chanReady(t.wcases[i]) {
				return true
			}
		}
		return false
	case wGate:
		return t.wgate.open
	case wTimer:
		ts := t.wtimer
		if ts.stopped {
			return false
		}
		if ts.manual {
			return ts.fired
		}
		return true
	case wSettle:
		return othersIdle(t)
	}
	return false
}

// choose records/replays one choice with n options. pre marks preemption cost for alternatives.
//
//go:norace
func choose(n int32, kind int8, pre bool) int32 {
	c := int32(0)
	if step < nprefix {
		c = prefix[step]
		if c >= n || c < 0 {
			endExec(EndDiverge, "divergence", "replayed choice out of range")
			c = 0
		}
	}
	if step >= MaxSteps-1 {
		endExec(EndHorizon, "horizon", "")
		return 0
	}
	taken[step], nopts[step], ckind[step], cpre[step] = c, n, kind, pre
	step++
	progress++
	return c
}

//go:norace
func endExec(reason int32, oracle, msg string) {
	if ending {
		return
	}
	ending = true
	EndReason = reason
	if oracle != "" && FailOracle == "" {
		FailOracle, FailMsg = oracle, msg
	}
}

//go:norace
func traceEv(me *Thread, op int32) {
	if ntrace >= MaxTrace {
		return
	}
	e := &trace[ntrace]
	e.T, e.Op, e.Step = me.ID, op, step
	for i := range e.PC {
		e.PC[i] = 0
	}
	runtime.Callers(3, e.PC[:])
	ntrace++
}

// schedule is called by the running thread `me` at every point.
//
//go:norace
func schedule(me *Thread, op int32) {
	if aborting {
		return
	}
	if Tracing {
		traceEv(me, op)
	}
	npoints++
	progress++
	for {
		if ending {
			// hand control to orchestrator, park until torn down
			cur = -1
			parkForAbort(me)
			return
		}
		var en [MaxT]*Thread
		n := int32(0)
		meEn := enabled(me)
		if meEn {
			en[n] = me
			n++
		}
		for i := int32(0); i < nthreads; i++ {
			t := threads[i]
			if t != me && enabled(t) {
				en[n] = t
				n++
			}
		}
		if n == 0 {
			if quiescent != nil && quiescent() {
				continue
			}
			anyParked := false
			for i := int32(0); i < nthreads; i++ {
				if !threads[i].exited {
					anyParked = true
				}
			}
			if anyParked {
				endExec(EndQuiescent, "", "")
			} else {
				endExec(EndComplete, "", "")
			}
			continue
		}
		if npoints > horizon {
			if n == 1 && meEn {
				endExec(EndLivelock, "livelock", "one thread runs forever while all others are parked or finished")
			} else {
				endExec(EndHorizon, "horizon", "")
			}
			continue
		}
		c := int32(0)
		if n > 1 && !Det {
			c = choose(n, KSched, meEn)
			if ending {
				continue
			}
		}
		nx := en[c]
		if nx.wk == wTimer && !nx.wtimer.fired {
			nx.wtimer.fired = true
			NFired++
		}
		if nx == me {
			return
		}
		cur = nx.ID
		if me.exited {
			return
		}
		if !waitTurn(me) {
			runtime.Goexit()
		}
		return
	}
}

//go:norace
func parkForAbort(me *Thread) {
	if me.exited {
		return
	}
	waitTurn(me) // returns only in abort mode
	runtime.Goexit()
}

//go:norace
func self() *Thread { return curT }

// Point is a scheduling point before a visible operation.
//
//go:norace
func Point() {
	if aborting {
		return
	}
	schedule(curT, OpPoint)
}

//go:norace
func PointOp(op int32) {
	if aborting {
		return
	}
	schedule(curT, op)
}

//go:norace
func block(me *Thread, op int32) {
	schedule(me, op)
	me.wk = wNone
}

//go:norace
func BlockWord(w *int32) {
	if aborting {
		return
	}
	me := curT
	me.wk, me.wword = wMutex, w
	block(me, OpLock)
}

//go:norace
func BlockRW(w *int32, write bool) { BlockRW2(w, nil, write) }

// BlockRW2: ww counts the writers that announced themselves; a reader is not admitted while it is > 0.
//
//go:norace
func BlockRW2(w, ww *int32, write bool) {
	if aborting {
		return
	}
	me := curT
	me.wk, me.wword, me.wword2, me.wwrite = wRW, w, ww, write
	if write {
		block(me, OpLock)
	} else {
		block(me, OpRLock)
	}
}

// BlockWG parks until *w <= 0.
//
//go:norace
func BlockWG(w *int32) {
	if aborting {
		return
	}
	me := curT
	me.wk, me.wword = wWG, w
	block(me, OpWG)
}

//go:norace
func (g *Gate) Wait() {
	if aborting {
		return
	}
	me := curT
	me.wk, me.wgate = wGate, g
	block(me, OpGate)
}

//go:norace
func (g *Gate) Open() { g.open = true }

//go:norace
func (g *Gate) IsOpen() bool { return g.open }

// Settle parks the caller until no other thread can run.
//
//go:norace
func Settle() {
	if aborting {
		return
	}
	me := curT
	for i := int32(0); i < nthreads; i++ {
		if o := threads[i]; o != me && !o.exited && o.wk == wSettle {
			endExec(EndDiverge, "infra", "two harness threads are in Settle at the same time (scenario bug)")
		}
	}
	me.wk = wSettle
	block(me, OpSettle)
}

//go:norace
func selectCases(nb bool, cs []Case) int {
	if aborting {
		return -1
	}
	me := curT
	if len(cs) > MaxCase {
		endExec(EndDiverge, "infra", "too many select cases")
	}
	me.ncases = int32(len(cs))
	for i := range cs {
		me.wcases[i] = cs[i]
	}
	if nb {
		schedule(me, OpSelectNB)
	} else {
		me.wk = wChans
		block(me, OpSelect)
	}
	if aborting {
		return -1
	}
	var rdy [MaxCase]int32
	n := int32(0)
	for i := int32(0); i < me.ncases; i++ {
		if chanReady(me.wcases[i]) {
			rdy[n] = i
			n++
		}
	}
	if n == 0 {
		return -1
	}
	if n == 1 || Det {
		return int(rdy[0])
	}
	return int(rdy[choose(n, KSelect, false)])
}

func Select(cs ...Case) int   { return selectCases(false, cs) }
func SelectNB(cs ...Case) int { return selectCases(true, cs) }

// Choose is a harness data choice with n options (free: no preemption cost).
//
//go:norace
func Choose(n int) int {
	if aborting || n <= 1 {
		return 0
	}
	return int(choose(int32(n), KChoose, false))
}

// chooseDev is an environment-deviation choice: option 0 is the canonical answer.
//
//go:norace
func chooseDev(n int) int {
	if aborting || n <= 1 || !MapDev {
		return 0
	}
	return int(choose(int32(n), KDev, false))
}

func chanPtr[T any](ch <-chan T) unsafe.Pointer { return *(*unsafe.Pointer)(unsafe.Pointer(&ch)) }

func RecvCase[T any](ch <-chan T) Case { return Case{P: chanPtr(ch)} }
func SendCase[T any](ch chan<- T) Case {
	return Case{P: *(*unsafe.Pointer)(unsafe.Pointer(&ch)), Send: true}
}

// ChanClosed reports (without touching the channel) whether ch is closed.
//
//go:norace
func chanClosedP(p unsafe.Pointer) bool {
	if p == nil {
		return false
	}
	return (*hchanHdr)(p).closed != 0
}

func ChanClosed[T any](ch <-chan T) bool { return chanClosedP(chanPtr(ch)) }

//go:norace
func Aborting() bool { return aborting }

// outside is true while no execution is in progress (package initialisation, between executions):
// the shims then perform the plain operation - e.g. a package-level variable initialised with a
// closed channel really gets a closed channel. (During the teardown of an execution the shims are
// no-ops instead: deferred library code must not touch anything.)
var outside = true

// Outside reports whether no execution is in progress.
//
//go:norace
func Outside() bool { return outside }

func Recv1[T any](ch <-chan T) T {
	var z T
	if outside {
		return <-ch
	}
	if selectCases(false, []Case{RecvCase(ch)}) < 0 {
		return z
	}
	return <-ch
}

func Recv2[T any](ch <-chan T) (T, bool) {
	var z T
	if outside {
		v, ok := <-ch
		return v, ok
	}
	if selectCases(false, []Case{RecvCase(ch)}) < 0 {
		return z, false
	}
	v, ok := <-ch
	return v, ok
}

func Send[T any](ch chan<- T, v T) {
	if outside {
		ch <- v
		return
	}
	if selectCases(false, []Case{SendCase(ch)}) < 0 {
		return
	}
	ch <- v
	PointOp(OpAfter)
}

func Close[T any](ch chan<- T) {
	if outside {
		close(ch)
		return
	}
	PointOp(OpClose)
	if Aborting() {
		return
	}
	close(ch)
	PointOp(OpAfter) // the code after a publishing close can be delayed
}

func CtxErr(c interface{ Err() error }) error {
	PointOp(OpCtxErr)
	return c.Err()
}

// CtxErrQuiet reads the cancellation state without a scheduling point (harness oracles).
func CtxErrQuiet(c interface{ Err() error }) error { return c.Err() }

func CtxDone(c interface{ Done() <-chan struct{} }) <-chan struct{} {
	PointOp(OpCtxDone)
	return c.Done()
}

// ---- threads ----

//go:norace
func newThread(name string) *Thread {
	if nthreads >= MaxT {
		// no scenario comes near this many goroutines/timers: something spawns for ever (e.g. a retry
		// that re-arms itself without running anything): judged like a thread that never stops
		endExec(EndLivelock, "livelock", "more than 64 goroutines/timers were created in one execution: something restarts itself for ever")
		return nil
	}
	t := &Thread{ID: nthreads, Name: name}
	threads[nthreads] = t
	nthreads++
	return t
}

func threadMain(t *Thread, f func()) {
	defer threadExit(t)
	if !waitTurn(t) {
		return
	}
	markStarted(t)
	f()
}

//go:norace
func markStarted(t *Thread) {
	t.started = true
	if Tracing {
		traceEv(t, OpStart)
	}
}

func threadExit(t *Thread) {
	if r := recover(); r != nil {
		notePanic(t, r)
	}
	exitHook(t)
}

func stack() string {
	var buf [4096]byte
	n := runtime.Stack(buf[:], false)
	return string(buf[:n])
}

//go:norace
func notePanic(t *Thread, r any) {
	if aborting {
		return
	}
	t.panicked = true
	t.PanicVal = r
	t.PanicStk = stack()
	endExec(EndPanic, "panic", "")
}

//go:norace
func exitHook(t *Thread) {
	atomic.AddInt32(&tearSync, 1) // the thread's last action: publish its history (see tearSync)
	t.exited = true
	t.wk = wNone
	if aborting {
		cur = -1
		return
	}
	schedule(t, OpExit)
}

func Go(f func()) { GoNamed("", f) }

func GoNamed(name string, f func()) *Thread {
	if Aborting() {
		return nil
	}
	t := newThread(name)
	if t == nil {
		return nil
	}
	go threadMain(t, f)
	PointOp(OpGo)
	return t
}

// NewTimer creates a parked thread that runs f once fired (auto: any time; manual: after Fire).
func NewTimer(f func()) *TimerState {
	if Aborting() {
		return &TimerState{stopped: true}
	}
	ts := newTimerState()
	t := newThread("timer")
	if t == nil {
		return ts
	}
	setTimerWait(t, ts)
	go threadMain(t, f)
	PointOp(OpTimerArm)
	return ts
}

//go:norace
func newTimerState() *TimerState {
	timerSeq++
	return &TimerState{manual: TimersManual, seq: timerSeq}
}

//go:norace
func setTimerWait(t *Thread, ts *TimerState) { t.wk, t.wtimer, t.isTimer = wTimer, ts, true }

// Stop reports whether the timer was stopped before firing.
//
//go:norace
func (ts *TimerState) Stop() bool {
	if ts.fired || ts.stopped {
		return false
	}
	ts.stopped = true
	return true
}

// FireEarliest releases the earliest armed manual timer; returns false if none.
//
//go:norace
func FireEarliest() bool {
	var best *TimerState
	for i := int32(0); i < nthreads; i++ {
		t := threads[i]
		if !t.exited && t.wk == wTimer && !t.wtimer.stopped && !t.wtimer.fired {
			if best == nil || t.wtimer.seq < best.seq {
				best = t.wtimer
			}
		}
	}
	if best == nil {
		return false
	}
	best.fired = true
	NFired++
	return true
}

//go:norace
func ArmedTimers() int {
	n := 0
	for i := int32(0); i < nthreads; i++ {
		t := threads[i]
		if !t.exited && t.wk == wTimer && !t.wtimer.stopped && !t.wtimer.fired {
			n++
		}
	}
	return n
}

//go:norace
func FiredTimers() int { return int(NFired) }

// lastTimerDur is the duration the most recently armed timer was armed with (timers fire whenever
// the schedule says so; the duration is only recorded so that harnesses can judge back-off growth).
var lastTimerDur int64

// NoteTimerDur records the duration of the timer just armed.
//
//go:norace
func NoteTimerDur(d int64) { lastTimerDur = d }

// LastTimerDur returns the duration (ns) of the most recently armed timer.
//
//go:norace
func LastTimerDur() int64 { return lastTimerDur }

// LastTimerSeq returns the sequence number of the most recently armed timer (0 = none).
//
//go:norace
func LastTimerSeq() int { return int(timerSeq) }

// TimerFired reports whether the timer with the given sequence number has fired.
//
//go:norace
func TimerFired(seq int) bool {
	for i := int32(0); i < nthreads; i++ {
		t := threads[i]
		if t.isTimer && t.wtimer != nil && int(t.wtimer.seq) == seq {
			return t.wtimer.fired
		}
	}
	return false
}

// ---- observation API (norace) ----

//go:norace
func Observe(kind int32, a, b, c int64) {
	if aborting {
		return
	}
	if nobs < MaxObs {
		id := int32(-1)
		if curT != nil {
			id = curT.ID
		}
		obs[nobs] = Obs{kind, id, a, b, c}
		nobs++
	}
}

//go:norace
func NObs() int { return int(nobs) }

//go:norace
func ObsAt(i int) Obs { return obs[i] }

//go:norace
func CtrAdd(i int, d int64) int64 { ctrs[i] += d; return ctrs[i] }

//go:norace
func CtrSet(i int, v int64) { ctrs[i] = v }

//go:norace
func Ctr(i int) int64 { return ctrs[i] }

//go:norace
func Fail(oracle, msg string) {
	if aborting {
		return
	}
	endExec(EndFail, oracle, msg)
}

//go:norace
func Failed() bool { return ending }

//go:norace
func SetLabel(s string) {
	if curT != nil {
		curT.Label = s
	}
}

//go:norace
func Self() *Thread { return curT }

//go:norace
func SelfID() int {
	if curT == nil {
		return -1
	}
	return int(curT.ID)
}

//go:norace
func OnQuiescent(f func() bool) { quiescent = f }

// Parked reports whether thread t is currently parked (started, not exited, not enabled).
//
//go:norace
func Parked(t *Thread) bool { return t != nil && !t.exited && !enabled(t) }

// CountParked counts started, parked threads whose label equals label.
//
//go:norace
func CountParked(label string) int {
	n := 0
	for i := int32(0); i < nthreads; i++ {
		t := threads[i]
		if t.started && !t.exited && t.Label == label && !enabled(t) {
			n++
		}
	}
	return n
}

//go:norace
func Exited(t *Thread) bool { return t != nil && t.exited }

//go:norace
func (t *Thread) GetLabel() string { return t.Label }

//go:norace
func SetCell(i int, v any) { cells[i] = v }

//go:norace
func GetCell(i int) any { return cells[i] }

// ---- pointer registration (creation index, for canonical map order) ----

//go:norace
func regAdd(p unsafe.Pointer) {
	if aborting {
		return
	}
	if nreg < MaxReg {
		regPtr[nreg] = p
		nreg++
	}
}

//go:norace
func regIndex(p unsafe.Pointer) int32 {
	for i := int32(0); i < nreg; i++ {
		if regPtr[i] == p {
			return i
		}
	}
	return -1
}

func Reg[T any](p *T) *T {
	regAdd(unsafe.Pointer(p))
	return p
}

// ---- orchestrator side ----

type Result struct {
	Taken     []int32
	NOpts     []int32
	Kind      []int8
	Pre       []bool
	EndReason int32
	Oracle    string
	Msg       string
	Obs       []Obs
	Parked    []string
	Panics    []string
	Points    int32
	Threads   int32
	Trace     []TraceEv
	Names     []string
}

//go:norace
func begin(pfx []int32, hz int32) {
	nthreads, step, nobs, npoints, ntrace, nreg = 0, 0, 0, 0, 0, 0
	nprefix = int32(len(pfx))
	for i := range pfx {
		prefix[i] = pfx[i]
	}
	horizon = hz
	outside = false
	aborting, ending = false, false
	EndReason, FailOracle, FailMsg = 0, "", ""
	for i := range ctrs {
		ctrs[i] = 0
	}
	for i := range cells {
		cells[i] = nil
	}
	quiescent = nil
	timerSeq = 0
	NFired = 0
	curT = nil
	cur = -1
}

//go:norace
func waitOrch() {
	for cur != -1 {
		runtime.Gosched()
	}
}

//go:norace
func startThread0(t *Thread) { cur = t.ID }

//go:norace
func teardown() {
	aborting = true
	// phase 1: every live thread publishes its history
	abortPhase = 1
	for i := int32(0); i < nthreads; i++ {
		t := threads[i]
		if t.exited {
			continue
		}
		cur = t.ID
		for !t.synced {
			runtime.Gosched()
		}
		for cur != -1 {
			runtime.Gosched()
		}
	}
	// phase 2: the threads leave one by one (deferred code runs with no-op shims)
	abortPhase = 2
	for i := int32(0); i < nthreads; i++ {
		t := threads[i]
		if t.exited {
			continue
		}
		cur = t.ID
		for !t.exited {
			runtime.Gosched()
		}
		cur = -1
	}
	for i := int32(0); i < nthreads; i++ {
		threads[i] = nil
	}
	for i := int32(0); i < nreg; i++ {
		regPtr[i] = nil
	}
	curT = nil
	outside = true
}

//go:norace
func collect() Result {
	r := Result{EndReason: EndReason, Oracle: FailOracle, Msg: FailMsg, Points: npoints, Threads: nthreads}
	r.Taken = make([]int32, step)
	r.NOpts = make([]int32, step)
	r.Kind = make([]int8, step)
	r.Pre = make([]bool, step)
	for i := int32(0); i < step; i++ {
		r.Taken[i], r.NOpts[i], r.Kind[i], r.Pre[i] = taken[i], nopts[i], ckind[i], cpre[i]
	}
	r.Obs = make([]Obs, nobs)
	for i := int32(0); i < nobs; i++ {
		r.Obs[i] = obs[i]
	}
	for i := int32(0); i < nthreads; i++ {
		t := threads[i]
		if !t.exited && t.started {
			r.Parked = append(r.Parked, t.Name+":"+t.Label)
		}
		if t.panicked {
			r.Panics = append(r.Panics, t.Name+": "+panicString(t.PanicVal)+"\n"+t.PanicStk)
		}
	}
	if Tracing {
		r.Trace = make([]TraceEv, ntrace)
		for i := int32(0); i < ntrace; i++ {
			r.Trace[i] = trace[i]
		}
		r.Names = make([]string, nthreads)
		for i := int32(0); i < nthreads; i++ {
			r.Names[i] = threads[i].Name
		}
	}
	return r
}

func panicString(v any) string {
	switch x := v.(type) {
	case error:
		return x.Error()
	case string:
		return x
	case interface{ String() string }:
		return x.String()
	}
	return "panic (non-string value)"
}

// Config of one execution.
type Config struct {
	Prefix  []int32
	Horizon int32
	Manual  bool // timers fire only through FireEarliest
	Det     bool // deterministic default schedule, only Choose() is a choice
	MapDev  bool // map order deviations are choices
	Trace   bool
}

// Progress is a counter that grows with every scheduling point (for the worker's watchdog).
//
//go:norace
func Progress() int64 { return progress }

var progress int64

// Run executes body as thread 0 under the given choice prefix.
// resetHooks run at the start of every execution: process-wide state kept by shim objects
// that live in package-level variables of the library (e.g. a sync.Pool) must not leak from
// one execution into the next.
var resetHooks []func()

// RegisterReset adds a hook run at the start of every execution.
//
//go:norace
func RegisterReset(f func()) { resetHooks = append(resetHooks, f) }

// RegisterResetOnce adds a hook that runs at the start of the next execution only (objects created during
// an execution register themselves again when they are used again).
//
//go:norace
func RegisterResetOnce(f func()) { resetOnce = append(resetOnce, f) }

var resetOnce []func()

func Run(c Config, body func()) Result {
	for _, f := range resetHooks {
		f()
	}
	once := resetOnce
	resetOnce = nil
	for _, f := range once {
		f()
	}
	begin(c.Prefix, c.Horizon)
	TimersManual, Det, MapDev, Tracing = c.Manual, c.Det, c.MapDev, c.Trace
	t := newThread("main")
	go threadMain(t, body)
	startThread0(t)
	waitOrch()
	r := collect()
	teardown()
	return r
}

// SelfTestChan checks the hchan header layout assumed by chanReady.
func SelfTestChan() bool {
	c := make(chan int, 2)
	if chanReady(RecvCase[int](c)) || !chanReady(SendCase[int](c)) {
		return false
	}
	c <- 1
	if !chanReady(RecvCase[int](c)) || !chanReady(SendCase[int](c)) {
		return false
	}
	c <- 2
	if chanReady(SendCase[int](c)) {
		return false
	}
	u := make(chan struct{})
	if chanReady(RecvCase[struct{}](u)) || chanClosedP(chanPtr[struct{}](u)) {
		return false
	}
	close(u)
	if !chanReady(RecvCase[struct{}](u)) || !chanClosedP(chanPtr[struct{}](u)) {
		return false
	}
	var nilc chan int
	return !chanReady(RecvCase[int](nilc))
}
