// Package vsync mirrors the parts of package sync the library uses; every operation is a
// scheduling point of the controlled scheduler. Each type embeds the real primitive, taken
// uncontended at the same moments, so the race detector sees the program's real
// happens-before edges.
package vsync

import (
	"sync"

	"github.com/aperturerobotics/util/zzverif/vsched"
)

type Locker = sync.Locker

type Mutex struct {
	w    int32
	real sync.Mutex
}

//go:norace
func (m *Mutex) word() *int32 { return &m.w }

//go:norace
func (m *Mutex) set(v int32) { m.w = v }

//go:norace
func (m *Mutex) get() int32 { return m.w }

func (m *Mutex) Lock() {
	vsched.BlockWord(m.word())
	if vsched.Aborting() {
		return
	}
	m.set(1)
	m.real.Lock()
}

func (m *Mutex) TryLock() bool {
	vsched.PointOp(vsched.OpTryLock)
	if vsched.Aborting() || m.get() != 0 {
		return false
	}
	m.set(1)
	m.real.Lock()
	return true
}

func (m *Mutex) Unlock() {
	vsched.PointOp(vsched.OpUnlock)
	if vsched.Aborting() {
		return
	}
	if m.get() == 0 {
		vsched.Fail("misuse", "sync: unlock of unlocked mutex")
		return
	}
	m.real.Unlock()
	m.set(0)
	vsched.PointOp(vsched.OpUnlocked)
}

// RWMutex: w == -1 writer, n>0 readers
type RWMutex struct {
	w    int32
	real sync.RWMutex
}

//go:norace
func (m *RWMutex) word() *int32 { return &m.w }

//go:norace
func (m *RWMutex) add(d int32) { m.w += d }

//go:norace
func (m *RWMutex) set(v int32) { m.w = v }

//go:norace
func (m *RWMutex) get() int32 { return m.w }

func (m *RWMutex) Lock() {
	vsched.BlockRW(m.word(), true)
	if vsched.Aborting() {
		return
	}
	m.set(-1)
	m.real.Lock()
}

func (m *RWMutex) TryLock() bool {
	vsched.PointOp(vsched.OpTryLock)
	if vsched.Aborting() || m.get() != 0 {
		return false
	}
	m.set(-1)
	m.real.Lock()
	return true
}

func (m *RWMutex) Unlock() {
	vsched.PointOp(vsched.OpUnlock)
	if vsched.Aborting() {
		return
	}
	if m.get() != -1 {
		vsched.Fail("misuse", "sync: Unlock of unlocked RWMutex")
		return
	}
	m.real.Unlock()
	m.set(0)
	vsched.PointOp(vsched.OpUnlocked)
}

func (m *RWMutex) RLock() {
	vsched.BlockRW(m.word(), false)
	if vsched.Aborting() {
		return
	}
	m.add(1)
	m.real.RLock()
}

func (m *RWMutex) TryRLock() bool {
	vsched.PointOp(vsched.OpTryLock)
	if vsched.Aborting() || m.get() < 0 {
		return false
	}
	m.add(1)
	m.real.RLock()
	return true
}

func (m *RWMutex) RUnlock() {
	vsched.PointOp(vsched.OpRUnlock)
	if vsched.Aborting() {
		return
	}
	if m.get() <= 0 {
		vsched.Fail("misuse", "sync: RUnlock of unlocked RWMutex")
		return
	}
	m.real.RUnlock()
	m.add(-1)
	vsched.PointOp(vsched.OpUnlocked)
}

func (m *RWMutex) RLocker() Locker { return (*rlocker)(m) }

type rlocker RWMutex

func (r *rlocker) Lock()   { (*RWMutex)(r).RLock() }
func (r *rlocker) Unlock() { (*RWMutex)(r).RUnlock() }

// Once: like sync.Once (callers that lose the race wait for the winner to finish).
type Once struct {
	m    Mutex
	done bool
}

func (o *Once) Do(f func()) {
	o.m.Lock()
	defer o.m.Unlock()
	if !o.done {
		defer func() { o.done = true }()
		f()
	}
}

// WaitGroup.
type WaitGroup struct {
	n    int32
	real sync.WaitGroup
}

//go:norace
func (w *WaitGroup) word() *int32 { return &w.n }

//go:norace
func (w *WaitGroup) add(d int32) int32 { w.n += d; return w.n }

func (w *WaitGroup) Add(d int) {
	vsched.PointOp(vsched.OpWG)
	if vsched.Aborting() {
		return
	}
	w.add(int32(d))
	w.real.Add(d)
}

func (w *WaitGroup) Done() { w.Add(-1) }

func (w *WaitGroup) Wait() {
	vsched.BlockWG(w.word())
	if vsched.Aborting() {
		return
	}
	w.real.Wait()
}
