// Package vsync mirrors the parts of package sync the library uses; every operation is a
// scheduling point of the controlled scheduler. Each type embeds the real primitive, taken
// uncontended at the same moments, so the race detector sees the program's real
// happens-before edges.
package vsync

import (
	"sync"

	"github.com/aperturerobotics/util/zzverif/vsched"
)

type Locker = sync.Locker

// held lists the shim locks that are currently locked. An execution that is cut short (a violation,
// the horizon) leaves the locks of its parked threads locked; for locks living in package-level
// variables of the library that state would leak into the next execution, so every lock still held
// is force-released when the next execution starts.
var held []releasable

type releasable interface{ forceRelease() }

//go:norace
func noteHeld(x releasable) { held = append(held, x) }

//go:norace
func noteFree(x releasable) {
	for i := len(held) - 1; i >= 0; i-- {
		if held[i] == x {
			held[i] = held[len(held)-1]
			held[len(held)-1] = nil
			held = held[:len(held)-1]
			return
		}
	}
}

//go:norace
func releaseAllHeld() {
	h := held
	held = nil
	for _, x := range h {
		x.forceRelease()
	}
}

func init() { vsched.RegisterReset(releaseAllHeld) }

//go:norace
func (m *Mutex) forceRelease() {
	if m.w != 0 {
		m.w = 0
		m.real.Unlock()
	}
}

//go:norace
func (m *RWMutex) forceRelease() {
	switch {
	case m.w < 0:
		m.real.Unlock()
	case m.w > 0:
		for i := int32(0); i < m.w; i++ {
			m.real.RUnlock()
		}
	}
	m.w = 0
}

type Mutex struct {
	w    int32
	real sync.Mutex
}

//go:norace
func (m *Mutex) word() *int32 { return &m.w }

//go:norace
func (m *Mutex) set(v int32) { m.w = v }

//go:norace
func (m *Mutex) get() int32 { return m.w }

func (m *Mutex) Lock() {
	vsched.BlockWord(m.word())
	if vsched.Aborting() {
		return
	}
	m.set(1)
	m.real.Lock()
	noteHeld(m)
}

func (m *Mutex) TryLock() bool {
	vsched.PointOp(vsched.OpTryLock)
	if vsched.Aborting() || m.get() != 0 {
		return false
	}
	m.set(1)
	m.real.Lock()
	noteHeld(m)
	return true
}

func (m *Mutex) Unlock() {
	vsched.PointOp(vsched.OpUnlock)
	if vsched.Aborting() {
		return
	}
	if m.get() == 0 {
		vsched.Fail("misuse", "sync: unlock of unlocked mutex")
		return
	}
	m.real.Unlock()
	m.set(0)
	noteFree(m)
	vsched.PointOp(vsched.OpUnlocked)
}

// RWMutex: w == -1 writer, n>0 readers
type RWMutex struct {
	w    int32
	ww   int32 // writers that have called Lock and not acquired yet: like sync.RWMutex, they block new readers
	real sync.RWMutex
}

//go:norace
func (m *RWMutex) addWW(d int32) { m.ww += d }

//go:norace
func (m *RWMutex) getWW() int32 { return m.ww }

//go:norace
func (m *RWMutex) word() *int32 { return &m.w }

//go:norace
func (m *RWMutex) add(d int32) { m.w += d }

//go:norace
func (m *RWMutex) set(v int32) { m.w = v }

//go:norace
func (m *RWMutex) get() int32 { return m.w }

func (m *RWMutex) Lock() {
	// a writer first announces itself (from then on new readers wait behind it), then waits for the lock
	vsched.PointOp(vsched.OpLock)
	if vsched.Aborting() {
		return
	}
	m.addWW(1)
	vsched.BlockRW2(m.word(), &m.ww, true)
	m.addWW(-1)
	if vsched.Aborting() {
		return
	}
	m.set(-1)
	m.real.Lock()
	noteHeld(m)
}

func (m *RWMutex) TryLock() bool {
	vsched.PointOp(vsched.OpTryLock)
	if vsched.Aborting() || m.get() != 0 {
		return false
	}
	m.set(-1)
	m.real.Lock()
	noteHeld(m)
	return true
}

func (m *RWMutex) Unlock() {
	vsched.PointOp(vsched.OpUnlock)
	if vsched.Aborting() {
		return
	}
	if m.get() != -1 {
		vsched.Fail("misuse", "sync: Unlock of unlocked RWMutex")
		return
	}
	m.real.Unlock()
	m.set(0)
	noteFree(m)
	vsched.PointOp(vsched.OpUnlocked)
}

func (m *RWMutex) RLock() {
	vsched.BlockRW2(m.word(), &m.ww, false)
	if vsched.Aborting() {
		return
	}
	m.add(1)
	m.real.RLock()
	if m.get() == 1 {
		noteHeld(m)
	}
}

func (m *RWMutex) TryRLock() bool {
	vsched.PointOp(vsched.OpTryLock)
	if vsched.Aborting() || m.get() < 0 || m.getWW() > 0 {
		return false
	}
	m.add(1)
	m.real.RLock()
	if m.get() == 1 {
		noteHeld(m)
	}
	return true
}

func (m *RWMutex) RUnlock() {
	vsched.PointOp(vsched.OpRUnlock)
	if vsched.Aborting() {
		return
	}
	if m.get() <= 0 {
		vsched.Fail("misuse", "sync: RUnlock of unlocked RWMutex")
		return
	}
	m.real.RUnlock()
	m.add(-1)
	if m.get() == 0 {
		noteFree(m)
	}
	vsched.PointOp(vsched.OpUnlocked)
}

func (m *RWMutex) RLocker() Locker { return (*rlocker)(m) }

type rlocker RWMutex

func (r *rlocker) Lock()   { (*RWMutex)(r).RLock() }
func (r *rlocker) Unlock() { (*RWMutex)(r).RUnlock() }

// Once: like sync.Once (callers that lose the race wait for the winner to finish).
type Once struct {
	m    Mutex
	done bool
}

func (o *Once) Do(f func()) {
	o.m.Lock()
	defer o.m.Unlock()
	if !o.done {
		defer func() { o.done = true }()
		f()
	}
}

// WaitGroup.
type WaitGroup struct {
	n    int32
	real sync.WaitGroup
}

//go:norace
func (w *WaitGroup) word() *int32 { return &w.n }

//go:norace
func (w *WaitGroup) add(d int32) int32 { w.n += d; return w.n }

func (w *WaitGroup) Add(d int) {
	vsched.PointOp(vsched.OpWG)
	if vsched.Aborting() {
		return
	}
	w.add(int32(d))
	w.real.Add(d)
}

func (w *WaitGroup) Done() { w.Add(-1) }

func (w *WaitGroup) Wait() {
	vsched.BlockWG(w.word())
	if vsched.Aborting() {
		return
	}
	w.real.Wait()
}

// ---- primitives the pinned library does not use today; present so that a changed library
// that starts using them still builds and runs under the controlled scheduler ----

// Pool: deterministic LIFO free list (the most adversarial legal behaviour of sync.Pool for
// code that relies on addresses not being reused: an object put back is the next one handed out).
type Pool struct {
	New   func() any
	mu    sync.Mutex
	items []any
	reg   bool
}

// register: a Pool (typically a package-level variable) is emptied at the start of every execution.
func (p *Pool) register() {
	if !p.reg {
		p.reg = true
		vsched.RegisterResetOnce(p.reset)
	}
}

// reset runs between two executions, on the orchestrator (no managed thread is running).
//
//go:norace
func (p *Pool) reset() { p.items, p.reg = nil, false }

func (p *Pool) Get() any {
	p.mu.Lock()
	p.register()
	if n := len(p.items); n > 0 {
		x := p.items[n-1]
		p.items = p.items[:n-1]
		p.mu.Unlock()
		return x
	}
	p.mu.Unlock()
	if p.New != nil {
		return p.New()
	}
	return nil
}

func (p *Pool) Put(x any) {
	if x == nil {
		return
	}
	p.mu.Lock()
	p.register()
	p.items = append(p.items, x)
	p.mu.Unlock()
}

// Cond: Wait releases L, parks until a Signal/Broadcast issued after it parked selects it, re-acquires L.
type Cond struct {
	L       Locker
	mu      sync.Mutex
	waiters []*condWaiter
}

type condWaiter struct {
	w  int32
	ch chan struct{}
}

//go:norace
func (c *condWaiter) word() *int32 { return &c.w }

//go:norace
func (c *condWaiter) set(v int32) { c.w = v }

func NewCond(l Locker) *Cond { return &Cond{L: l} }

func (c *Cond) Wait() {
	cw := &condWaiter{ch: make(chan struct{})}
	cw.set(1)
	c.mu.Lock()
	c.waiters = append(c.waiters, cw)
	c.mu.Unlock()
	c.L.Unlock()
	vsched.BlockWG(cw.word())
	if !vsched.Aborting() {
		<-cw.ch
	}
	c.L.Lock()
}

func (c *Cond) wake(n int) {
	vsched.PointOp(vsched.OpUnlock)
	if vsched.Aborting() {
		return
	}
	c.mu.Lock()
	for n != 0 && len(c.waiters) > 0 {
		cw := c.waiters[0]
		c.waiters = c.waiters[1:]
		cw.set(0)
		close(cw.ch)
		n--
	}
	c.mu.Unlock()
	vsched.PointOp(vsched.OpUnlocked)
}

func (c *Cond) Signal()    { c.wake(1) }
func (c *Cond) Broadcast() { c.wake(-1) }

// Map: the real sync.Map with a scheduling point before every operation.
type Map struct{ m sync.Map }

func mpt() { vsched.PointOp(vsched.OpAtomic) }

func (m *Map) Load(k any) (any, bool)           { mpt(); return m.m.Load(k) }
func (m *Map) Store(k, v any)                   { mpt(); m.m.Store(k, v) }
func (m *Map) LoadOrStore(k, v any) (any, bool) { mpt(); return m.m.LoadOrStore(k, v) }
func (m *Map) LoadAndDelete(k any) (any, bool)  { mpt(); return m.m.LoadAndDelete(k) }
func (m *Map) Delete(k any)                     { mpt(); m.m.Delete(k) }
func (m *Map) Swap(k, v any) (any, bool)        { mpt(); return m.m.Swap(k, v) }
func (m *Map) CompareAndSwap(k, o, n any) bool  { mpt(); return m.m.CompareAndSwap(k, o, n) }
func (m *Map) CompareAndDelete(k, o any) bool   { mpt(); return m.m.CompareAndDelete(k, o) }
func (m *Map) Range(f func(k, v any) bool)      { mpt(); m.m.Range(f) }

// OnceFunc / OnceValue / OnceValues in terms of Once.
func OnceFunc(f func()) func() {
	var o Once
	return func() { o.Do(f) }
}

func OnceValue[T any](f func() T) func() T {
	var o Once
	var v T
	return func() T { o.Do(func() { v = f() }); return v }
}

func OnceValues[T1, T2 any](f func() (T1, T2)) func() (T1, T2) {
	var o Once
	var v1 T1
	var v2 T2
	return func() (T1, T2) { o.Do(func() { v1, v2 = f() }); return v1, v2 }
}
