// Package vatomic mirrors sync/atomic's typed values; each operation is preceded by a
// scheduling point and then performed by the real atomic.
package vatomic

import (
	"sync/atomic"

	"github.com/aperturerobotics/util/zzverif/vsched"
)

func pt() { vsched.PointOp(vsched.OpAtomic) }

// after: a point after a publishing operation, so that the plain writes that follow it can be
// delayed ("flag published before the data it guards").
func after() { vsched.PointOp(vsched.OpAfter) }

type Bool struct{ v atomic.Bool }

func (x *Bool) Load() bool                    { pt(); return x.v.Load() }
func (x *Bool) Store(v bool)                  { pt(); x.v.Store(v); after() }
func (x *Bool) Swap(v bool) bool              { pt(); r := x.v.Swap(v); after(); return r }
func (x *Bool) CompareAndSwap(o, n bool) bool { pt(); r := x.v.CompareAndSwap(o, n); after(); return r }

type Int32 struct{ v atomic.Int32 }

func (x *Int32) Load() int32        { pt(); return x.v.Load() }
func (x *Int32) Store(v int32)      { pt(); x.v.Store(v); after() }
func (x *Int32) Swap(v int32) int32 { pt(); r := x.v.Swap(v); after(); return r }
func (x *Int32) Add(d int32) int32  { pt(); r := x.v.Add(d); after(); return r }
func (x *Int32) CompareAndSwap(o, n int32) bool {
	pt()
	r := x.v.CompareAndSwap(o, n)
	after()
	return r
}

type Int64 struct{ v atomic.Int64 }

func (x *Int64) Load() int64        { pt(); return x.v.Load() }
func (x *Int64) Store(v int64)      { pt(); x.v.Store(v); after() }
func (x *Int64) Swap(v int64) int64 { pt(); r := x.v.Swap(v); after(); return r }
func (x *Int64) Add(d int64) int64  { pt(); r := x.v.Add(d); after(); return r }
func (x *Int64) CompareAndSwap(o, n int64) bool {
	pt()
	r := x.v.CompareAndSwap(o, n)
	after()
	return r
}

type Uint32 struct{ v atomic.Uint32 }

func (x *Uint32) Load() uint32         { pt(); return x.v.Load() }
func (x *Uint32) Store(v uint32)       { pt(); x.v.Store(v); after() }
func (x *Uint32) Swap(v uint32) uint32 { pt(); r := x.v.Swap(v); after(); return r }
func (x *Uint32) Add(d uint32) uint32  { pt(); r := x.v.Add(d); after(); return r }
func (x *Uint32) CompareAndSwap(o, n uint32) bool {
	pt()
	r := x.v.CompareAndSwap(o, n)
	after()
	return r
}

type Uint64 struct{ v atomic.Uint64 }

func (x *Uint64) Load() uint64         { pt(); return x.v.Load() }
func (x *Uint64) Store(v uint64)       { pt(); x.v.Store(v); after() }
func (x *Uint64) Swap(v uint64) uint64 { pt(); r := x.v.Swap(v); after(); return r }
func (x *Uint64) Add(d uint64) uint64  { pt(); r := x.v.Add(d); after(); return r }
func (x *Uint64) CompareAndSwap(o, n uint64) bool {
	pt()
	r := x.v.CompareAndSwap(o, n)
	after()
	return r
}

type Pointer[T any] struct{ v atomic.Pointer[T] }

func (x *Pointer[T]) Load() *T     { pt(); return x.v.Load() }
func (x *Pointer[T]) Store(v *T)   { pt(); x.v.Store(v); after() }
func (x *Pointer[T]) Swap(v *T) *T { pt(); r := x.v.Swap(v); after(); return r }
func (x *Pointer[T]) CompareAndSwap(o, n *T) bool {
	pt()
	r := x.v.CompareAndSwap(o, n)
	after()
	return r
}

type Value struct{ v atomic.Value }

func (x *Value) Load() any      { pt(); return x.v.Load() }
func (x *Value) Store(v any)    { pt(); x.v.Store(v); after() }
func (x *Value) Swap(v any) any { pt(); r := x.v.Swap(v); after(); return r }

func AddInt32(p *int32, d int32) int32     { pt(); r := atomic.AddInt32(p, d); after(); return r }
func AddInt64(p *int64, d int64) int64     { pt(); r := atomic.AddInt64(p, d); after(); return r }
func AddUint32(p *uint32, d uint32) uint32 { pt(); r := atomic.AddUint32(p, d); after(); return r }
func AddUint64(p *uint64, d uint64) uint64 { pt(); r := atomic.AddUint64(p, d); after(); return r }
func LoadInt32(p *int32) int32             { pt(); return atomic.LoadInt32(p) }
func LoadInt64(p *int64) int64             { pt(); return atomic.LoadInt64(p) }
func LoadUint32(p *uint32) uint32          { pt(); return atomic.LoadUint32(p) }
func LoadUint64(p *uint64) uint64          { pt(); return atomic.LoadUint64(p) }
func StoreInt32(p *int32, v int32)         { pt(); atomic.StoreInt32(p, v); after() }
func StoreInt64(p *int64, v int64)         { pt(); atomic.StoreInt64(p, v); after() }
func StoreUint32(p *uint32, v uint32)      { pt(); atomic.StoreUint32(p, v); after() }
func StoreUint64(p *uint64, v uint64)      { pt(); atomic.StoreUint64(p, v); after() }
func CompareAndSwapInt32(p *int32, o, n int32) bool {
	pt()
	r := atomic.CompareAndSwapInt32(p, o, n)
	after()
	return r
}
func CompareAndSwapInt64(p *int64, o, n int64) bool {
	pt()
	r := atomic.CompareAndSwapInt64(p, o, n)
	after()
	return r
}
func CompareAndSwapUint32(p *uint32, o, n uint32) bool {
	pt()
	return atomic.CompareAndSwapUint32(p, o, n)
}
func CompareAndSwapUint64(p *uint64, o, n uint64) bool {
	pt()
	return atomic.CompareAndSwapUint64(p, o, n)
}
func SwapInt32(p *int32, v int32) int32     { pt(); r := atomic.SwapInt32(p, v); after(); return r }
func SwapInt64(p *int64, v int64) int64     { pt(); r := atomic.SwapInt64(p, v); after(); return r }
func SwapUint32(p *uint32, v uint32) uint32 { pt(); r := atomic.SwapUint32(p, v); after(); return r }
func SwapUint64(p *uint64, v uint64) uint64 { pt(); r := atomic.SwapUint64(p, v); after(); return r }

// ---- operations the pinned library does not use today (kept so a changed library still builds) ----

func (x *Int32) And(m int32) int32    { pt(); r := x.v.And(m); after(); return r }
func (x *Int32) Or(m int32) int32     { pt(); r := x.v.Or(m); after(); return r }
func (x *Int64) And(m int64) int64    { pt(); r := x.v.And(m); after(); return r }
func (x *Int64) Or(m int64) int64     { pt(); r := x.v.Or(m); after(); return r }
func (x *Uint32) And(m uint32) uint32 { pt(); r := x.v.And(m); after(); return r }
func (x *Uint32) Or(m uint32) uint32  { pt(); r := x.v.Or(m); after(); return r }
func (x *Uint64) And(m uint64) uint64 { pt(); r := x.v.And(m); after(); return r }
func (x *Uint64) Or(m uint64) uint64  { pt(); r := x.v.Or(m); after(); return r }
func (x *Value) CompareAndSwap(o, n any) bool {
	pt()
	r := x.v.CompareAndSwap(o, n)
	after()
	return r
}

type Uintptr struct{ v atomic.Uintptr }

func (x *Uintptr) Load() uintptr          { pt(); return x.v.Load() }
func (x *Uintptr) Store(v uintptr)        { pt(); x.v.Store(v); after() }
func (x *Uintptr) Swap(v uintptr) uintptr { pt(); r := x.v.Swap(v); after(); return r }
func (x *Uintptr) Add(d uintptr) uintptr  { pt(); r := x.v.Add(d); after(); return r }
func (x *Uintptr) CompareAndSwap(o, n uintptr) bool {
	pt()
	r := x.v.CompareAndSwap(o, n)
	after()
	return r
}
