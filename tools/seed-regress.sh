#!/bin/bash
# usage: seed-regress.sh [lanes] [name pattern, default *] : re-runs every stored seeded change (seeded/<pattern>/patch.diff) against the committed checks.
# Each lane works on its own scratch worktree of /repo and its own copy of /verif (so /repo itself is never touched);
# for every seed the check of its property is run, and C13 too when the seed's meta says the race build is what catches it.
# Output: one line per seed "<seed> <property> CAUGHT|MISSED <scenario:oracle ...>" in /tmp/seed-regress.out
lanes=${1:-3}
pat=${2:-*}
export GOFLAGS=-mod=mod GOPROXY=off GOSUMDB=off GOTOOLCHAIN=local
out=/tmp/seed-regress.out; : > $out
ls -d /verif/seeded/$pat/ | sed 's|/$||' > /tmp/seed-regress.list
for l in $(seq 1 $lanes); do
  (
    r=/tmp/rlane$l; v=/tmp/vlane$l
    git -C /repo worktree remove --force $r 2>/dev/null; rm -rf $r $v
    git -C /repo worktree add -q --detach $r HEAD
    mkdir -p $v; rsync -a --exclude .cache --exclude .work --exclude .git --exclude counterexamples --exclude seeded --exclude evidence /verif/ $v/
    sed -i "s|=> /repo|=> $r|" $v/harness/go.mod
    i=0
    while read d; do
      i=$((i+1)); [ $((i % lanes)) -eq $((l % lanes)) ] || continue
      [ -f $d/patch.diff ] || continue
      prop=$(python3 -c "import json;print(json.load(open('$d/meta.json'))['breaks_property'])")
      props=$prop
      if grep -q "C13" $d/meta.json && [ "$prop" != C13 ]; then props="$prop C13"; fi
      (cd $r && git checkout -q -- . && git apply $d/patch.diff) || { echo "$(basename $d) $prop NOAPPLY" >> $out; continue; }
      res=""; verdict=MISSED
      for p in $props; do
        o=$(cd $v && VERIF_REPO=$r VERIF_GOCACHE=/verif/.cache/go-build timeout 1500 ./vcheck run $p 2>&1 | grep -E "^violation|^vcheck" | sed -E 's/violation: scenario=([^ ]*) oracle=([^ ]*) .*/\1:\2/' | head -2 | tr '\n' ' ')
        case "$o" in *:*) echo "$o" | grep -qv "^vcheck" && verdict=CAUGHT;; esac
        echo "$o" | grep -q "^vcheck" && [ "$verdict" != CAUGHT ] && verdict=INFRA
        res="$res [$p: ${o:-none}]"
      done
      echo "$(basename $d) $prop $verdict $res" >> $out
      (cd $r && git checkout -q -- .)
    done < /tmp/seed-regress.list
    git -C /repo worktree remove --force $r; rm -rf $v
  ) &
done
wait
sort $out -o $out
echo "caught: $(grep -c ' CAUGHT ' $out)  missed: $(grep -c ' MISSED ' $out)  noapply: $(grep -c NOAPPLY $out)"
grep -E " MISSED | NOAPPLY| INFRA " $out
