#!/bin/bash
# usage: revert-test.sh <commit> <prop>...  : reverts a fix commit in the /repo working tree, runs checks, restores.
c=$1; shift
git -C /repo revert -n $c >/dev/null 2>&1 || { echo "revert failed"; git -C /repo revert --abort; exit 2; }
for p in "$@"; do
  echo "== revert $c, check $p"
  /verif/vcheck run $p 2>&1 | grep -E "^VIOLATION|^KNOWN|INCOMPLETE|^wall|^vcheck" | cut -c1-200
done
git -C /repo reset -q --hard HEAD
