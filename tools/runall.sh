#!/bin/bash
# runs every claimed check (quick tier by default) and prints a one-line verdict each
tier=${1:-quick}
cd /verif
for p in $(python3 -c "import json;print(' '.join(c['property_id'] for c in json.load(open('MANIFEST.json'))['checks']))"); do
  s=$(date +%s.%N)
  out=$(./vcheck run $p --tier $tier 2>&1); rc=$?
  e=$(date +%s.%N)
  printf "%s rc=%d %.1fs %s\n" $p $rc $(echo "$e - $s" | bc) "$(echo "$out" | grep -E '^VIOLATION|^KNOWN|INCOMPLETE|^vcheck' | cut -c1-150 | tr '\n' ';')"
done
