#!/usr/bin/env python3
"""Regenerates /verif/MANIFEST.json from the table below."""
import json, os
V = os.path.dirname(os.path.dirname(os.path.abspath(__file__)))

TECH = "stateless implementation-level model checking: exhaustive DFS over thread schedules (iterative preemption bounding), select outcomes and harness choices of the real library under a controlled scheduler"
TECH_HIST = "exhaustive enumeration of operation sequences up to a depth on the real objects under a deterministic controlled scheduler, compared step by step with a reference model"
TECH_INPUT = "exhaustive small-scope input enumeration against a reference definition"

claimed = {
 "C12": dict(tech=TECH + "; each complete execution yields a call/return history checked against the sequential specification with porcupine", ref="3 C12", text="Every interleaving of the individual atomic loads/CASes (AtomicLIFO) and critical sections (LinkedList) of small multi-threaded programs with all operation mixes; each history is checked for linearizability against a sequential stack/deque (porcupine) and for element conservation."),
 "C03": dict(tech=TECH, ref="3 C03", text="Every interleaving of waiters, broadcasters (HoldLock, TryHoldLock, HoldLockMaybeAsync), cancellers and a channel-collecting observer on the real Broadcast; generation oracle on channel closedness (read from the channel header) in every critical section, result oracles on Wait, and no waiter parked at quiescence while its predicate holds."),
 "C17": dict(tech=TECH, ref="3 C17", text="Every interleaving of CallConcurrently with 0-3 functions over every outcome vector (nil entry, nil, two errors, context.Canceled, park-until-cancelled) and a caller-cancel thread; the point after every unlock exposes the window between the caller's critical section and its next plain read."),
 "C15": dict(tech=TECH + "; Get/Set/Swap histories additionally checked with porcupine against a register", ref="3 C15", text="Every interleaving of writers (SwapValue, SetValue) with each kind of waiter (value, change, empty, validator, custom equality, context cancellation, error channel): lost-update and register-linearizability oracles, returned values must have been held during the call and satisfy the condition, error sources must have fired, nobody stays parked at quiescence while the content satisfies."),
 "C16": dict(tech=TECH, ref="3 C16", text="Every interleaving of 2-3 Resolve callers (one cancellable, with canceller) with the completion of a scripted function (success/error sequences, fast or slow, context-aware), followed by late callers; overlap, call-after-success, result and retry oracles; MemoizeFunc with 3 concurrent callers."),
 "C11": dict(tech=TECH + "; deterministic livelock detection at the scheduling-point horizon", ref="3 C11", text="Every interleaving of concurrent SetResult calls with awaiters of the three kinds, cancellers and channel threads on Promise, and of SetPromise/SetResult replacements with awaiters on PromiseContainer, over every result error value incl. the context sentinels; winner-uniqueness, result-agreement, source-fired and parked-at-quiescence oracles; a spinning awaiter is a deterministic livelock."),
 "C18": dict(tech=TECH, ref="3 C18", text="Every interleaving of producers (all batch splits), jobs, a WaitIdle caller and a WatchState watcher on ConcurrentQueue with limit 1, 2 and unlimited: concurrency bound, exactly-once, FIFO for limit 1, count invariants on every reported pair, WaitIdle soundness and liveness at quiescence."),
 "C04": dict(tech=TECH, ref="3 C04", text="A controller issues every short word over the restart-causing calls (RoutineContainer and StateRoutineContainer, plus a retry back-off variant with freely firing timers) while instances return late after cancellation; every interleaving up to the bound; an active-instance counter and wait-channel watchers decide overlap."),
 "C05": dict(tech=TECH, ref="3 C05", text="Same exploration plus two concurrent controllers; at every controller return superseded instances must already be cancelled and at most one live instance exists; at quiescence the survivor must derive from the current context and have the latest state."),
 "C07": dict(tech=TECH, ref="3 C07", text="Every schedule (within the bound) of a controller issuing words over restart/reset/context calls, removals (immediate, delayed, ClearContext, SyncKeys) and non-restarting calls against scripted key routines (run until cancelled with exit latency, fail then run) with freely firing retry and removal timers; per-key overlap, cancelled-on-removal, nothing-restarts and retry-survives oracles at call return and at quiescence."),
 "C06": dict(tech=TECH_HIST + "; plus a schedule exploration of the stale-timer window", ref="3 C06", text="Every operation sequence up to depth 4-5 (quick) / 6-7 (thorough) over the key-set API of Keyed and KeyedRefCount, times release delay, context and routine-script configurations, replayed on fresh real objects under the deterministic scheduler with manual timers; after every operation the reported key set, data and return values are compared with a reference model; delays expire as explicit letters and at the end. A schedule-explored scenario covers a stale removal-timer callback."),
 "C08": dict(tech=TECH, ref="3 C08-C10", text="Every schedule (within the bound) of reference users (AddRef with callback or nil, Release, double Release), context changes and released() invalidations against a scripted resolver (value, error, late return after cancellation, slow, invalidated from another thread), both keep-unreferenced settings: each release function at most once always and exactly once at final quiescence unless legitimately kept, never while the target still holds the value or a held reference was last told the value, never without reason while references are held."),
 "C09": dict(tech=TECH, ref="3 C08-C10", text="Same drivers plus restart words issued while old resolver calls are still returning: at most one resolver call at a time; at every quiescent state with context and a held reference a resolver call is parked or the latest result is in the target containers and in every held reference callback (also for references added later); no panic (nil callback) and no deadlock."),
 "C10": dict(tech=TECH, ref="3 C08-C10", text="Every schedule (within the bound) of Wait/Resolve/ResolveWithReleased holders and Access callers (callback parks, returns at once, returns errors) against released() invalidations, context changes, caller cancellation and other references: held values are not released unless invalidated, the released callback fires exactly once by the next quiescent state, invalidated callbacks are cancelled (not parked at quiescence) and re-invoked, Access returns only a valid invocation's result, errors pass through."),
 "C13": dict(tech=TECH + "; second -race build of the same harness: the scheduler hand-offs are invisible to ThreadSanitizer, so every explored schedule is checked against the program's real happens-before relation", ref="2.6, 3 C13", text="Every scenario of every other concurrency property (all listed types: Broadcast, csync, CContainer, ccall, conc, cqueue, linkedlist, Keyed, KeyedRefCount, RoutineContainer, StateRoutineContainer, RefCount, Promise, PromiseContainer, Once, MemoizeFunc, iocloser, iosizer) is explored again in a -race build; a ThreadSanitizer report with a library frame is a violation, replayable from its choice sequence."),
 "C14": dict(tech=TECH_HIST, ref="3 C14", text="Every operation sequence up to depth 5 (quick) / 6 (thorough) over the routine API including scripted exits of the current instance (nil / error), retry-timer firings and non-blocking WaitExited probes, times three back-off configurations, on RoutineContainer and StateRoutineContainer; after every operation the number of routine entries, the running status, exit-callback reports, WaitExited results and back-off calls are compared with a reference machine that encodes only what C14 states (unstated cases accept either behaviour)."),
 "C19": dict(tech=TECH_INPUT, ref="3 C19", text="Exhaustive small-scope enumeration run directly on the real functions: every message length 0..130 (520 thorough) x spare capacity x fill for Pad/Unpad round trips, every length x trailer byte for Unpad alone, every tuple of up to 3 strings of length <=3 over an alphabet containing bytes >= 0x80 and a split UTF-8 sequence for Prefix/TrimPrefix against the byte-wise definition, and every chunk composition of a 16-byte (20 thorough) read for the prng reader, for 3 seeds."),
 "C20": dict(tech=TECH_HIST + "; schedule exploration for the concurrent helpers (ioproxy pumps, iocloser Close racing Read/Write, concurrent iosizer)", ref="3 C20", text="Every call sequence up to depth 3-6 (quick) over ioseek (Seek/Read against an offset+slice model), iosizer (scripted wrapped-stream answers), iocloser (Read/Write/Close words, close function counted) and unique.KeyedList/KeyedMap (contents model and notification-log replay, duplicate keys in one call, two equality functions); plus every interleaving (bounded) of the ioproxy pumps over every chunking of the messages, of Close racing Read/Write, and of concurrent SizeReadWriter users."),
 "C01": dict(tech=TECH, ref="3 C01", text="Every interleaving (preemption bound 2 quick / 3 thorough) of 8+4 small client programs of csync.Mutex/RWMutex (Lock, TryLock, Locker, double release, cancellation) runs on the real code; an exact occupancy counter checks 'one writer or many readers' at every acquire."),
 "C02": dict(tech=TECH, ref="3 C02", text="Same exploration; liveness is decided exactly at every quiescent state of the controlled scheduler (nobody parked in a grantable Lock), cancelled waiters must return context.Canceled and leave the lock probe-able, readers may not overtake a waiting writer."),
}
not_applicable = {}

checks = []
for pid in sorted(claimed):
    c = claimed[pid]
    checks.append({
        "property_id": pid,
        "quick_cmd": f"./vcheck run {pid} --tier quick",
        "thorough_cmd": f"./vcheck run {pid} --tier thorough",
        "evidence_file": f"/verif/evidence/{pid}.json",
        "replay_cmd_template": "./vcheck replay {path}",
        "engine": "vcheck",
        "level_claimed": {"category": "model_checking", "text": c["text"], "design_ref": "DESIGN.md §" + c["ref"]},
        "level_note": "Bounded: the listed scenarios, thread counts and preemption bounds (reported per scenario in the evidence). Trusted: Go toolchain/runtime, the source instrumenter tools/vrewrite and the shim packages, sequentially consistent interleaving of visible operations.",
        "technique": c["tech"],
    })
all_ids = ["C%02d" % i for i in range(1, 21)]
na = []
for pid in all_ids:
    if pid not in claimed:
        na.append({"property_id": pid, "reason": not_applicable.get(pid, "check not built yet (work in progress; see DESIGN.md §3 for the plan)")})
m = {
 "version": 1,
 "setup_cmd": "./vcheck setup",
 "hooks": {
   "guard": "none (no hooks in /repo: sources are instrumented at check time by tools/vrewrite and substituted with go build -overlay)",
   "enable": "./vcheck run <id> rewrites the current /repo working tree into /verif/.work/<run>/ and builds the harness with -overlay",
   "baseline_off_cmd": "cd /repo && GOFLAGS=-mod=mod GOPROXY=off GOSUMDB=off GOTOOLCHAIN=local go test -vet=off -count=1 ./...",
   "source_commits": [],
   "add_only": True,
 },
 "engines": [{"name": "vcheck", "path": "/verif/vcheck", "serves_properties": sorted(claimed), "kind_free_text": "hand-written stateless model checker for Go: source instrumenter (tools/vrewrite) + controlled scheduler shims (shim/) + explorer with master/worker sharding (harness/eng) + scenarios and oracles (harness/scn)"}],
 "checks": checks,
 "not_applicable": na,
 "notes": "exit 0 = held on everything explored; exit 1 + VIOLATION line = violation; exit 2 = infrastructure failure (never a verdict). Fix commits in /repo are listed in known_findings.json under 'fixed'.",
}
json.dump(m, open(os.path.join(V, "MANIFEST.json"), "w"), indent=1)
print("claimed:", sorted(claimed))
