#!/bin/bash
# usage: seed-test.sh <patch.diff> <prop>... : applies a seeded change to /repo, runs the repository tests and the
# given checks, then restores /repo.  Never commits anything in /repo.
patch=$1; shift
cd /repo || exit 2
git diff --quiet || { echo "/repo has uncommitted changes"; exit 2; }
git apply "$patch" || { echo "patch does not apply"; exit 2; }
export GOFLAGS=-mod=mod GOPROXY=off GOSUMDB=off GOTOOLCHAIN=local
if [ -z "$SKIP_REPO_TESTS" ]; then
echo "== repository tests with the change:"
go build ./... 2>&1 | tail -3
go test -vet=off -count=1 ./... 2>&1 | grep -v "no test files" | grep -v "^ok" | head -10
echo "   (only failures are listed above)"
fi
for p in "$@"; do
  echo "== check $p"
  s=$(date +%s)
  /verif/vcheck run $p ${TIER:+--tier $TIER} 2>&1 | grep -E "^VIOLATION|^violation|^KNOWN|^wall|^vcheck" | cut -c1-300
done
git checkout -- . ; git status --short | head -3
