module vrewrite

go 1.22.0

toolchain go1.23.5

require golang.org/x/tools v0.29.0
