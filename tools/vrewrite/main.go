// vrewrite is the check-time source instrumenter described in /verif/DESIGN.md §2.1.
package main

import (
	"bytes"
	"encoding/json"
	"flag"
	"fmt"
	"go/ast"
	"go/build"
	"go/importer"
	"go/parser"
	"go/printer"
	"go/token"
	"go/types"
	"io"
	"os"
	"os/exec"
	"path/filepath"
	"regexp"
	"sort"
	"strconv"
	"strings"

	"golang.org/x/tools/go/ast/astutil"
)

var (
	repo     = flag.String("repo", "/repo", "repository root")
	out      = flag.String("out", "", "output directory")
	modPath  = flag.String("mod", "github.com/aperturerobotics/util", "module path")
	shimRoot = flag.String("shim", "github.com/aperturerobotics/util/zzverif", "shim import root")
	shimDir  = flag.String("shimdir", "", "directory holding the shim packages (vsched, vsync, ...)")
	pkgList  = flag.String("pkgs", "", "comma-separated repository package directories to instrument")
	harness  = flag.String("harness", "", "harness module directory (optional)")
	harnPkgs = flag.String("hpkgs", "scn", "comma-separated harness sub-packages to instrument")
	harnMod  = flag.String("hmod", "verifharness", "harness module path")
	quiet    = flag.Bool("q", false, "quiet")
)

var importMap = map[string]string{
	"sync":        "vsync",
	"sync/atomic": "vatomic",
	"time":        "vtime",
	"context":     "vctx",
}

type listPkg struct {
	ImportPath string
	Export     string
	Dir        string
	GoFiles    []string
}

func fatalf(f string, a ...any) {
	fmt.Fprintf(os.Stderr, "vrewrite: "+f+"\n", a...)
	os.Exit(2)
}

func goList(dir string, overlay string, pats []string) map[string]string {
	args := []string{"list", "-export", "-deps", "-json=ImportPath,Export,Dir,GoFiles"}
	if overlay != "" {
		args = append(args, "-overlay", overlay)
	}
	args = append(args, pats...)
	cmd := exec.Command("go", args...)
	cmd.Dir = dir
	cmd.Stderr = os.Stderr
	outb, err := cmd.Output()
	if err != nil {
		fatalf("go list in %s: %v", dir, err)
	}
	exports := map[string]string{}
	dec := json.NewDecoder(bytes.NewReader(outb))
	for {
		var lp listPkg
		if err := dec.Decode(&lp); err == io.EOF {
			break
		} else if err != nil {
			fatalf("decode: %v", err)
		}
		exports[lp.ImportPath] = lp.Export
	}
	return exports
}

func mkImporter(fset *token.FileSet, exports map[string]string) types.Importer {
	return importer.ForCompiler(fset, "gc", func(path string) (io.ReadCloser, error) {
		e, ok := exports[path]
		if !ok || e == "" {
			return nil, fmt.Errorf("no export data for %s", path)
		}
		return os.Open(e)
	})
}

func writeOverlay(overlay map[string]string) string {
	ob, _ := json.MarshalIndent(map[string]any{"Replace": overlay}, "", " ")
	p := filepath.Join(*out, "overlay.json")
	if err := os.WriteFile(p, ob, 0o644); err != nil {
		fatalf("%v", err)
	}
	return p
}

func main() {
	flag.Parse()
	if *out == "" || *pkgList == "" || *shimDir == "" {
		fatalf("usage: vrewrite -out DIR -shimdir DIR -pkgs a,b,c [-harness DIR]")
	}
	pkgs := strings.Split(*pkgList, ",")
	if err := os.MkdirAll(*out, 0o755); err != nil {
		fatalf("%v", err)
	}
	overlay := map[string]string{}
	// shim packages become virtual directories below the repository root
	for _, sp := range []string{"vsched", "vsync", "vatomic", "vtime", "vctx"} {
		ents, err := os.ReadDir(filepath.Join(*shimDir, sp))
		if err != nil {
			fatalf("%v", err)
		}
		for _, e := range ents {
			if strings.HasSuffix(e.Name(), ".go") {
				overlay[filepath.Join(*repo, "zzverif", sp, e.Name())] = filepath.Join(*shimDir, sp, e.Name())
			}
		}
	}
	// stage 1: library packages
	var pats []string
	for _, p := range pkgs {
		pats = append(pats, "./"+p)
	}
	exports := goList(*repo, "", pats)
	fset := token.NewFileSet()
	imp := mkImporter(fset, exports)
	for _, p := range pkgs {
		rewritePkg(fset, imp, filepath.Join(*repo, p), *modPath+"/"+p, filepath.Join(*out, "lib", p), overlay)
	}
	ov := writeOverlay(overlay)
	// stage 2: harness scenario packages (type-checked against the instrumented library)
	if *harness != "" {
		hp := strings.Split(*harnPkgs, ",")
		var hpats []string
		for _, p := range hp {
			hpats = append(hpats, "./"+p)
		}
		hexports := goList(*harness, ov, hpats)
		hfset := token.NewFileSet()
		himp := mkImporter(hfset, hexports)
		for _, p := range hp {
			rewritePkg(hfset, himp, filepath.Join(*harness, p), *harnMod+"/"+p, filepath.Join(*out, "harness", p), overlay)
		}
		writeOverlay(overlay)
	}
}

type rw struct {
	fset   *token.FileSet
	info   *types.Info
	pkg    *types.Package
	n      int
	skip   map[ast.Node]bool // comm statements / their recv exprs handled by select rewrite
	recv2  map[ast.Node]bool // recv exprs in 2-value assignment context
	usedVS bool
	lib    bool                    // a package of the library under test (not the harness)
	gen    map[*ast.BlockStmt]bool // blocks generated for select / range-over-map (last statement carries a label)
	stats  map[string]int
}

func rewritePkg(fset *token.FileSet, imp types.Importer, dir, importPath, outDir string, overlay map[string]string) {
	rel := importPath
	ents, err := os.ReadDir(dir)
	if err != nil {
		fatalf("%v", err)
	}
	var files []*ast.File
	var names []string
	for _, e := range ents {
		n := e.Name()
		if !strings.HasSuffix(n, ".go") || strings.HasSuffix(n, "_test.go") {
			continue
		}
		if ok, _ := build.Default.MatchFile(dir, n); !ok {
			continue
		}
		f, err := parser.ParseFile(fset, filepath.Join(dir, n), nil, parser.ParseComments)
		if err != nil {
			fatalf("parse: %v", err)
		}
		files = append(files, f)
		names = append(names, n)
	}
	info := &types.Info{
		Types:      map[ast.Expr]types.TypeAndValue{},
		Uses:       map[*ast.Ident]types.Object{},
		Defs:       map[*ast.Ident]types.Object{},
		Selections: map[*ast.SelectorExpr]*types.Selection{},
	}
	conf := types.Config{Importer: imp}
	pkg, err := conf.Check(importPath, fset, files, info)
	if err != nil {
		fatalf("typecheck %s: %v", rel, err)
	}
	total := map[string]int{}
	for i, f := range files {
		r := &rw{lib: !strings.HasPrefix(importPath, *harnMod+"/") && importPath != *harnMod, fset: fset, info: info, pkg: pkg, skip: map[ast.Node]bool{}, recv2: map[ast.Node]bool{}, gen: map[*ast.BlockStmt]bool{}, stats: map[string]int{}}
		r.file(f)
		for k, v := range r.stats {
			total[k] += v
		}
		var buf bytes.Buffer
		// keep build constraints
		for _, cg := range f.Comments {
			if cg.Pos() < f.Package {
				for _, c := range cg.List {
					if strings.HasPrefix(c.Text, "//go:build") {
						fmt.Fprintln(&buf, c.Text)
						fmt.Fprintln(&buf)
					}
				}
			}
		}
		f.Comments = nil
		stripDocs(f)
		cfg := printer.Config{Mode: printer.UseSpaces | printer.TabIndent | printer.SourcePos, Tabwidth: 8}
		if err := cfg.Fprint(&buf, fset, f); err != nil {
			fatalf("print: %v", err)
		}
		dst := filepath.Join(outDir, names[i])
		os.MkdirAll(filepath.Dir(dst), 0o755)
		out := resetFuncRe.ReplaceAll(buf.Bytes(), []byte("//go:norace\nfunc $1()"))
		if err := os.WriteFile(dst, out, 0o644); err != nil {
			fatalf("%v", err)
		}
		overlay[filepath.Join(dir, names[i])] = dst
	}
	keys := make([]string, 0, len(total))
	for k := range total {
		keys = append(keys, k)
	}
	sort.Strings(keys)
	var sb strings.Builder
	for _, k := range keys {
		fmt.Fprintf(&sb, " %s=%d", k, total[k])
	}
	if !*quiet {
		fmt.Printf("%-12s files=%d%s\n", rel, len(files), sb.String())
	}
}

var resetFuncRe = regexp.MustCompile(`(?m)^func (_vr\d+resetPkgVars)\(\)`)

func stripDocs(f *ast.File) {
	ast.Inspect(f, func(n ast.Node) bool {
		switch x := n.(type) {
		case *ast.FuncDecl:
			x.Doc = nil
		case *ast.GenDecl:
			x.Doc = nil
		case *ast.Field:
			x.Doc, x.Comment = nil, nil
		case *ast.TypeSpec:
			x.Doc, x.Comment = nil, nil
		case *ast.ValueSpec:
			x.Doc, x.Comment = nil, nil
		case *ast.ImportSpec:
			x.Doc, x.Comment = nil, nil
		}
		return true
	})
	f.Doc = nil
}

func id(s string) *ast.Ident { return ast.NewIdent(s) }

func (r *rw) vs(fn string, args ...ast.Expr) *ast.CallExpr {
	r.usedVS = true
	return &ast.CallExpr{Fun: &ast.SelectorExpr{X: id("vsched"), Sel: id(fn)}, Args: args}
}

func (r *rw) tmp(suffix string) string {
	return fmt.Sprintf("_vr%d%s", r.n, suffix)
}

func isCtxType(t types.Type) bool {
	n, ok := t.(*types.Named)
	if !ok {
		return false
	}
	o := n.Obj()
	return o.Pkg() != nil && o.Pkg().Path() == "context" && o.Name() == "Context"
}

func (r *rw) file(f *ast.File) {
	// imports
	for _, is := range f.Imports {
		p, _ := strconv.Unquote(is.Path.Value)
		if shim, ok := importMap[p]; ok {
			name := filepath.Base(p)
			if is.Name != nil {
				name = is.Name.Name
			}
			is.Name = id(name)
			is.Path.Value = strconv.Quote(*shimRoot + "/" + shim)
			r.stats["import"]++
		}
	}
	pre := func(c *astutil.Cursor) bool {
		switch x := c.Node().(type) {
		case *ast.SelectStmt:
			for _, cl := range x.Body.List {
				cc := cl.(*ast.CommClause)
				if cc.Comm == nil {
					continue
				}
				r.skip[cc.Comm] = true
				switch s := cc.Comm.(type) {
				case *ast.ExprStmt:
					r.skip[ast.Unparen(s.X)] = true
				case *ast.AssignStmt:
					r.skip[ast.Unparen(s.Rhs[0])] = true
				}
			}
		case *ast.AssignStmt:
			if len(x.Lhs) == 2 && len(x.Rhs) == 1 {
				if u, ok := ast.Unparen(x.Rhs[0]).(*ast.UnaryExpr); ok && u.Op == token.ARROW {
					r.recv2[u] = true
				}
			}
		case *ast.ValueSpec:
			if len(x.Names) == 2 && len(x.Values) == 1 {
				if u, ok := ast.Unparen(x.Values[0]).(*ast.UnaryExpr); ok && u.Op == token.ARROW {
					r.recv2[u] = true
				}
			}
		}
		return true
	}
	post := func(c *astutil.Cursor) bool {
		switch x := c.Node().(type) {
		case *ast.LabeledStmt:
			// a labeled select / range-over-map was replaced by a block whose last statement is the generated
			// switch / loop: the label moves onto that statement so "break L" / "continue L" keep their meaning.
			if blk, ok := x.Stmt.(*ast.BlockStmt); ok && r.gen[blk] {
				var hasGoto, hasBreak bool
				ast.Inspect(f, func(n ast.Node) bool {
					if b, ok := n.(*ast.BranchStmt); ok && b.Label != nil && b.Label.Name == x.Label.Name {
						if b.Tok == token.GOTO {
							hasGoto = true
						} else {
							hasBreak = true
						}
					}
					return true
				})
				if hasGoto {
					// goto L re-evaluates the channel operands: the label stays on the whole block.
					if hasBreak {
						fatalf("%s: label used by both goto and break/continue on a rewritten statement", r.fset.Position(x.Pos()))
					}
					break
				}
				n := len(blk.List)
				blk.List[n-1] = &ast.LabeledStmt{Label: x.Label, Stmt: blk.List[n-1]}
				c.Replace(blk)
			}
		case *ast.GoStmt:
			c.Replace(r.goStmt(x))
		case *ast.SelectStmt:
			c.Replace(r.selectStmt(x))
		case *ast.SendStmt:
			if !r.skip[x] {
				r.stats["send"]++
				c.Replace(&ast.ExprStmt{X: r.vs("Send", x.Chan, x.Value)})
			}
		case *ast.UnaryExpr:
			if x.Op == token.ARROW && !r.skip[x] {
				r.stats["recv"]++
				if r.recv2[x] {
					c.Replace(r.vs("Recv2", x.X))
				} else {
					c.Replace(r.vs("Recv1", x.X))
				}
			} else if x.Op == token.AND {
				if _, ok := ast.Unparen(x.X).(*ast.CompositeLit); ok {
					r.stats["reg"]++
					c.Replace(r.vs("Reg", x))
				}
			}
		case *ast.CallExpr:
			if fn, ok := x.Fun.(*ast.Ident); ok {
				if b, ok := r.info.Uses[fn].(*types.Builtin); ok {
					switch b.Name() {
					case "close":
						r.stats["close"]++
						c.Replace(r.vs("Close", x.Args[0]))
					case "new":
						r.stats["reg"]++
						c.Replace(r.vs("Reg", x))
					}
				}
			} else if sel, ok := x.Fun.(*ast.SelectorExpr); ok && len(x.Args) == 0 {
				if t := r.info.TypeOf(sel.X); t != nil && isCtxType(t) {
					switch sel.Sel.Name {
					case "Err":
						r.stats["ctxerr"]++
						c.Replace(r.vs("CtxErr", sel.X))
					case "Done":
						r.stats["ctxdone"]++
						c.Replace(r.vs("CtxDone", sel.X))
					}
				}
			}
		case *ast.RangeStmt:
			if t := r.info.TypeOf(x.X); t != nil {
				switch t.Underlying().(type) {
				case *types.Map:
					c.Replace(r.rangeMap(x))
				case *types.Chan:
					fatalf("%s: range over channel unsupported", r.fset.Position(x.Pos()))
				}
			}
		}
		return true
	}
	astutil.Apply(f, pre, post)
	if r.lib {
		r.resetPackageVars(f)
	}
	if r.usedVS {
		have := false
		for _, is := range f.Imports {
			if p, _ := strconv.Unquote(is.Path.Value); p == *shimRoot+"/vsched" && (is.Name == nil || is.Name.Name == "vsched") {
				have = true
			}
		}
		if !have {
			astutil.AddNamedImport(r.fset, f, "vsched", *shimRoot+"/vsched")
		}
	}
}

// resetPackageVars: every package-level variable of the library is given its initial value again at the
// start of each execution (the explorer assumes that every execution starts from the same state; a
// changed library may keep a free list, a scratch buffer, a cache or a counter at package level).
func (r *rw) resetPackageVars(f *ast.File) {
	var stmts []ast.Stmt
	for _, d := range f.Decls {
		gd, ok := d.(*ast.GenDecl)
		if !ok || gd.Tok != token.VAR {
			continue
		}
		for _, sp := range gd.Specs {
			vsp := sp.(*ast.ValueSpec)
			if len(vsp.Values) != 0 && len(vsp.Values) != len(vsp.Names) {
				continue // (a, b = f(): left alone)
			}
			for i, n := range vsp.Names {
				if n.Name == "_" {
					continue
				}
				var rhs ast.Expr
				if len(vsp.Values) != 0 {
					rhs = vsp.Values[i]
				} else if vsp.Type != nil {
					rhs = &ast.StarExpr{X: &ast.CallExpr{Fun: id("new"), Args: []ast.Expr{vsp.Type}}}
				} else {
					continue
				}
				stmts = append(stmts, &ast.AssignStmt{Lhs: []ast.Expr{id(n.Name)}, Tok: token.ASSIGN, Rhs: []ast.Expr{rhs}})
				r.stats["pkgvar"]++
			}
		}
	}
	if len(stmts) == 0 {
		return
	}
	// the reset runs between two executions on the orchestrator, which the race detector cannot order with
	// the managed threads (hand-offs are invisible to it by design): it is a //go:norace function
	r.n++
	name := r.tmp("resetPkgVars")
	f.Decls = append(f.Decls, &ast.FuncDecl{
		Doc:  &ast.CommentGroup{List: []*ast.Comment{{Text: "//go:norace"}}},
		Name: id(name), Type: &ast.FuncType{Params: &ast.FieldList{}},
		Body: &ast.BlockStmt{List: stmts},
	})
	f.Decls = append(f.Decls, &ast.FuncDecl{
		Name: id("init"), Type: &ast.FuncType{Params: &ast.FieldList{}},
		Body: &ast.BlockStmt{List: []ast.Stmt{&ast.ExprStmt{X: r.vs("RegisterReset", id(name))}}},
	})
}

func (r *rw) goStmt(g *ast.GoStmt) ast.Stmt {
	r.n++
	r.stats["go"]++
	call := g.Call
	var pre []ast.Stmt
	fun := call.Fun
	if fl, ok := fun.(*ast.FuncLit); ok && len(call.Args) == 0 {
		return &ast.ExprStmt{X: r.vs("Go", fl)}
	}
	hoistFun := true
	switch f := ast.Unparen(fun).(type) {
	case *ast.FuncLit:
		hoistFun = false
	case *ast.Ident:
		if _, ok := r.info.Uses[f].(*types.Func); ok {
			hoistFun = false
		}
	case *ast.SelectorExpr:
		if o, ok := r.info.Uses[f.Sel].(*types.Func); ok {
			if sig := o.Type().(*types.Signature); sig.Recv() == nil {
				hoistFun = false // pkg.Func
			}
		}
	}
	if hoistFun {
		n := r.tmp("f")
		pre = append(pre, &ast.AssignStmt{Lhs: []ast.Expr{id(n)}, Tok: token.DEFINE, Rhs: []ast.Expr{fun}})
		fun = id(n)
	}
	var args []ast.Expr
	for i, a := range call.Args {
		tv := r.info.Types[a]
		if tv.Value != nil || tv.IsNil() {
			args = append(args, a)
			continue
		}
		n := r.tmp("a" + strconv.Itoa(i))
		pre = append(pre, &ast.AssignStmt{Lhs: []ast.Expr{id(n)}, Tok: token.DEFINE, Rhs: []ast.Expr{a}})
		args = append(args, id(n))
	}
	inner := &ast.CallExpr{Fun: fun, Args: args, Ellipsis: call.Ellipsis}
	if call.Ellipsis != token.NoPos {
		inner.Ellipsis = 1
	}
	lit := &ast.FuncLit{Type: &ast.FuncType{Params: &ast.FieldList{}}, Body: &ast.BlockStmt{List: []ast.Stmt{&ast.ExprStmt{X: inner}}}}
	pre = append(pre, &ast.ExprStmt{X: r.vs("Go", lit)})
	return &ast.BlockStmt{List: pre}
}

func (r *rw) selectStmt(s *ast.SelectStmt) ast.Stmt {
	r.n++
	r.stats["select"]++
	var pre []ast.Stmt
	var cases []ast.Expr
	var clauses []ast.Stmt
	hasDefault := false
	idx := 0
	for _, cl := range s.Body.List {
		cc := cl.(*ast.CommClause)
		if cc.Comm == nil {
			hasDefault = true
			clauses = append(clauses, &ast.CaseClause{List: []ast.Expr{&ast.UnaryExpr{Op: token.SUB, X: &ast.BasicLit{Kind: token.INT, Value: "1"}}}, Body: cc.Body})
			continue
		}
		ch := r.tmp("c" + strconv.Itoa(idx))
		var op ast.Stmt
		switch c := cc.Comm.(type) {
		case *ast.ExprStmt:
			u := ast.Unparen(c.X).(*ast.UnaryExpr)
			pre = append(pre, &ast.AssignStmt{Lhs: []ast.Expr{id(ch)}, Tok: token.DEFINE, Rhs: []ast.Expr{u.X}})
			cases = append(cases, r.vs("RecvCase", id(ch)))
			op = &ast.ExprStmt{X: &ast.UnaryExpr{Op: token.ARROW, X: id(ch)}}
		case *ast.AssignStmt:
			u := ast.Unparen(c.Rhs[0]).(*ast.UnaryExpr)
			pre = append(pre, &ast.AssignStmt{Lhs: []ast.Expr{id(ch)}, Tok: token.DEFINE, Rhs: []ast.Expr{u.X}})
			cases = append(cases, r.vs("RecvCase", id(ch)))
			op = &ast.AssignStmt{Lhs: c.Lhs, Tok: c.Tok, Rhs: []ast.Expr{&ast.UnaryExpr{Op: token.ARROW, X: id(ch)}}}
		case *ast.SendStmt:
			v := r.tmp("v" + strconv.Itoa(idx))
			pre = append(pre, &ast.AssignStmt{Lhs: []ast.Expr{id(ch), id(v)}, Tok: token.DEFINE, Rhs: []ast.Expr{c.Chan, c.Value}})
			cases = append(cases, r.vs("SendCase", id(ch)))
			op = &ast.SendStmt{Chan: id(ch), Value: id(v)}
		default:
			fatalf("unsupported comm clause")
		}
		body := []ast.Stmt{op}
		if _, isSend := cc.Comm.(*ast.SendStmt); isSend {
			// post-publish point, as after a plain send: what the sender does next may race with the receiver
			body = append(body, &ast.ExprStmt{X: r.vs("PointOp", &ast.SelectorExpr{X: id("vsched"), Sel: id("OpAfter")})})
		}
		body = append(body, cc.Body...)
		clauses = append(clauses, &ast.CaseClause{List: []ast.Expr{&ast.BasicLit{Kind: token.INT, Value: strconv.Itoa(idx)}}, Body: body})
		idx++
	}
	clauses = append(clauses, &ast.CaseClause{List: nil, Body: []ast.Stmt{&ast.ExprStmt{X: &ast.CallExpr{Fun: id("panic"), Args: []ast.Expr{&ast.BasicLit{Kind: token.STRING, Value: `"vsched: select index out of range"`}}}}}})
	fn := "Select"
	if hasDefault {
		fn = "SelectNB"
	}
	sw := &ast.SwitchStmt{Tag: r.vs(fn, cases...), Body: &ast.BlockStmt{List: clauses}}
	pre = append(pre, sw)
	blk := &ast.BlockStmt{List: pre}
	r.gen[blk] = true
	return blk
}

func (r *rw) rangeMap(x *ast.RangeStmt) ast.Stmt {
	r.n++
	r.stats["rangemap"]++
	m, k, v, ok := r.tmp("m"), r.tmp("k"), r.tmp("v"), r.tmp("ok")
	blank := func(e ast.Expr) bool {
		if e == nil {
			return true
		}
		i, isId := e.(*ast.Ident)
		return isId && i.Name == "_"
	}
	var body []ast.Stmt
	vname := v
	if blank(x.Value) {
		vname = "_"
	}
	body = append(body, &ast.AssignStmt{Lhs: []ast.Expr{id(vname), id(ok)}, Tok: token.DEFINE, Rhs: []ast.Expr{&ast.IndexExpr{X: id(m), Index: id(k)}}})
	body = append(body, &ast.IfStmt{Cond: &ast.UnaryExpr{Op: token.NOT, X: id(ok)}, Body: &ast.BlockStmt{List: []ast.Stmt{&ast.BranchStmt{Tok: token.CONTINUE}}}})
	var lhs, rhs []ast.Expr
	if !blank(x.Key) {
		lhs, rhs = append(lhs, x.Key), append(rhs, id(k))
	}
	if !blank(x.Value) {
		lhs, rhs = append(lhs, x.Value), append(rhs, id(v))
	}
	if len(lhs) > 0 {
		body = append(body, &ast.AssignStmt{Lhs: lhs, Tok: x.Tok, Rhs: rhs})
	}
	body = append(body, x.Body.List...)
	loop := &ast.RangeStmt{Key: id("_"), Value: id(k), Tok: token.DEFINE, X: r.vs("MapKeys", id(m)), Body: &ast.BlockStmt{List: body}}
	blk := &ast.BlockStmt{List: []ast.Stmt{
		&ast.AssignStmt{Lhs: []ast.Expr{id(m)}, Tok: token.DEFINE, Rhs: []ast.Expr{x.X}},
		loop,
	}}
	r.gen[blk] = true
	return blk
}
