#!/bin/bash
# usage: seed-confirm.sh <demo-dir> <pkgdir> <test-file> <run-regex>
# Confirms, in a fresh scratch worktree of /repo, that (1) the change compiles and the repository's tests pass with it,
# (2) the demonstration fails with the change and (3) passes without it. Removes the worktree afterwards.
demo=$1; pkg=$2; tf=$3; rx=$4
wt=/tmp/confirm-$$
export GOFLAGS=-mod=mod GOPROXY=off GOSUMDB=off GOTOOLCHAIN=local
git -C /repo worktree add -q --detach $wt HEAD || exit 2
cd $wt
git apply $demo/patch.diff || { echo "PATCH DOES NOT APPLY"; cd /; git -C /repo worktree remove --force $wt; exit 2; }
echo "-- build + repository tests with the change"
go build ./... && go test -vet=off -count=1 ./... 2>&1 | grep -v "no test files" | grep -cv "^ok" | sed 's/^/   non-ok lines: /'
cp $demo/$tf $pkg/
echo "-- demonstration WITH the change (expected: FAIL)"
go test -vet=off -count=1 -run "$rx" ./$pkg/ 2>&1 | grep -E "^(--- |FAIL|ok|PASS)" | head -8
git apply -R $demo/patch.diff
echo "-- demonstration WITHOUT the change (expected: ok)"
go test -vet=off -count=1 -run "$rx" ./$pkg/ 2>&1 | grep -E "^(--- |FAIL|ok|PASS)" | head -8
cd /; git -C /repo worktree remove --force $wt
