#!/bin/bash
# usage: seed-batch.sh <root dir> : for every <root>/<Cxx>-demo/<k>/ with patch.diff + spec.txt:
#  phase 1 (parallel, each in its own fresh scratch worktree): confirms the seed - build + repository tests with
#          the change, demonstration with and without the change;
#  phase 2 (serial, patches /repo and restores it): runs the property's check (plus C13 when spec says race).
# prints one summary line per seed.  Never run another check while phase 2 is running.
root=$1
export GOFLAGS=-mod=mod GOPROXY=off GOSUMDB=off GOTOOLCHAIN=local
confirm() {
  d=$1
  id=$(basename $(dirname $d) | cut -d- -f1); k=$(basename $d)
  read pkg tf rx race < $d/spec.txt
  wt=/tmp/confirm-$id-$k-$$; git -C /repo worktree add -q --detach $wt HEAD
  cd $wt
  if ! git apply $d/patch.diff 2>/dev/null; then echo "PATCH-DOES-NOT-APPLY" > $d/.confirm; cd /; git -C /repo worktree remove --force $wt; return; fi
  rf=""; [ "$race" = race ] && rf="-race"
  bad=$( (go build ./... 2>&1; go test -vet=off -count=1 ./... 2>&1) | grep -v "no test files" | grep -cv "^ok")
  if [ "$bad" != 0 ]; then # timing-dependent repository tests flake under load: once more
    bad=$( (go test -vet=off -count=1 ./... 2>&1) | grep -v "no test files" | grep -cv "^ok")
  fi
  cp $d/$tf $pkg/zz_seed_demo_test.go
  with=$(go test $rf -vet=off -count=1 -run "$rx" ./$pkg/ 2>&1 | grep -cE "^(--- FAIL|FAIL)")
  git apply -R $d/patch.diff
  without=$(go test $rf -vet=off -count=1 -run "$rx" ./$pkg/ 2>&1 | grep -cE "^(--- FAIL|FAIL)")
  cd /; git -C /repo worktree remove --force $wt
  echo "repo-tests-nonok=$bad demo-fails-with=$with demo-fails-without=$without" > $d/.confirm
}
export -f confirm
ls -d $root/C*-demo/[0-9] | while read d; do
  [ -f $d/patch.diff ] && [ -f $d/spec.txt ] && echo $d
done | xargs -P 5 -I{} bash -c 'confirm {}'
for d in $root/C*-demo/[0-9]; do
  [ -f $d/patch.diff ] && [ -f $d/spec.txt ] || { echo "$d: incomplete"; continue; }
  id=$(basename $(dirname $d) | cut -d- -f1); k=$(basename $d)
  read pkg tf rx race < $d/spec.txt
  c=$(cat $d/.confirm 2>/dev/null)
  if [ "$c" = PATCH-DOES-NOT-APPLY ]; then echo "$id/$k: PATCH-DOES-NOT-APPLY"; continue; fi
  props="$id"; [ "$race" = race ] && [ "$id" != C13 ] && props="$id C13"
  res=""
  for p in $props; do
    out=$(SKIP_REPO_TESTS=1 /verif/tools/seed-test.sh $d/patch.diff $p 2>&1 | grep -E "^violation" | sed -E 's/violation: scenario=([^ ]*) oracle=([^ ]*) .*/\1:\2/' | head -3 | tr '\n' ' ')
    res="$res [$p: ${out:-MISSED}]"
  done
  echo "$id/$k: $c $res"
done
