#!/bin/bash
# usage: seed-batch.sh <root dir> : for every <root>/<Cxx>-demo/<k>/ with patch.diff + spec.txt:
#  confirms the seed in a fresh worktree and runs the property's check (plus C13 when spec says race); prints one summary line each.
root=$1
export GOFLAGS=-mod=mod GOPROXY=off GOSUMDB=off GOTOOLCHAIN=local
for d in $root/C*-demo/[0-9]; do
  [ -f $d/patch.diff ] && [ -f $d/spec.txt ] || { echo "$d: incomplete"; continue; }
  id=$(basename $(dirname $d) | cut -d- -f1); k=$(basename $d)
  read pkg tf rx race < $d/spec.txt
  wt=/tmp/confirm-$$; git -C /repo worktree add -q --detach $wt HEAD
  cd $wt
  if ! git apply $d/patch.diff 2>/dev/null; then echo "$id/$k: PATCH-DOES-NOT-APPLY"; cd /; git -C /repo worktree remove --force $wt; continue; fi
  rf=""; [ "$race" = race ] && rf="-race"
  bad=$( (go build ./... 2>&1; go test -vet=off -count=1 ./... 2>&1) | grep -v "no test files" | grep -cv "^ok")
  cp $d/$tf $pkg/zz_seed_demo_test.go
  with=$(go test $rf -vet=off -count=1 -run "$rx" ./$pkg/ 2>&1 | grep -cE "^(--- FAIL|FAIL)")
  git apply -R $d/patch.diff
  without=$(go test $rf -vet=off -count=1 -run "$rx" ./$pkg/ 2>&1 | grep -cE "^(--- FAIL|FAIL)")
  cd /; git -C /repo worktree remove --force $wt
  props="$id"; [ "$race" = race ] && props="$id C13"
  res=""
  for p in $props; do
    out=$(/verif/tools/seed-test.sh $d/patch.diff $p 2>&1 | grep -E "^violation" | sed -E 's/violation: scenario=([^ ]*) oracle=([^ ]*) .*/\1:\2/' | head -3 | tr '\n' ' ')
    res="$res [$p: ${out:-MISSED}]"
  done
  echo "$id/$k: repo-tests-nonok=$bad demo-fails-with=$with demo-fails-without=$without $res"
done
