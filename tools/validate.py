#!/usr/bin/env python3-vt
import json, jsonschema, sys, glob
jsonschema.validate(json.load(open('/verif/MANIFEST.json')), json.load(open('/root/.vp/MANIFEST.schema.json')))
print('manifest valid')
es = json.load(open('/root/.vp/EVIDENCE.schema.json'))
for f in sorted(glob.glob('/verif/evidence/*.json')):
    jsonschema.validate(json.load(open(f)), es)
    print('evidence valid:', f)
