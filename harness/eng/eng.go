// Package eng is the explorer: scenario registry, stateless DFS with iterative
// preemption bounding (worker side), master/worker sharding, evidence and
// counterexample files. It is NOT instrumented (it uses the real sync/os packages).
package eng

import (
	"fmt"
	"hash/fnv"
	"runtime"
	"sort"
	"strings"

	"github.com/aperturerobotics/util/zzverif/vsched"
)

// Bounds of one tier.
type Bounds struct {
	PB  int   // preemption bound (iterated 0..PB)
	Dev int   // environment-deviation bound (map order rotations)
	Cap int64 // cap on executions per pass (0 = default)
	// Delay: bound every deviation from the canonical schedule (running thread first, then
	// ascending thread id), not only preemptions: a non-default choice at a point where the
	// running thread blocked or exited also costs one (delay-bounded scheduling).
	Delay bool
}

// Scenario is one closed client program of the library plus its oracles.
type Scenario struct {
	Name    string
	Props   []string // properties whose checks run this scenario (C13 runs every scenario with Race)
	Doc     string
	Manual  bool  // timers fire only through vsched.FireEarliest
	Det     bool  // deterministic default schedule; only Choose() is explored (history enumerators)
	Horizon int32 // scheduling-point horizon (default 5000)
	Body    func()
	// Post runs in the orchestrator after an execution that ended without a failure.
	Post func(r *vsched.Result) (oracle, msg string)
	// MustFinish: every named harness thread must have finished when the execution ends.
	MustFinish bool
	Quick      Bounds
	Thorough   Bounds
	NoRace     bool // exclude from the C13 race-mode exploration
	RacePB     int  // preemption/deviation bound for the quick race-mode exploration (default 1)
	// PanicsOK: a panic in a library-spawned goroutine is outside the property (e.g. a panicking
	// user callback run asynchronously); such executions are not judged.
	PanicsOK bool
	// ThoroughOnly scenarios run only in the thorough tier; QuickOnly only in the quick tier.
	ThoroughOnly bool
	QuickOnly    bool
	ObsNames     map[int32]string
	// Direct scenarios are plain exhaustive input enumerations (no scheduler): the
	// function enumerates shard `shard` of `nshards` and reports through rep.
	Direct func(rep *DirectReport, shard, nshards int, thorough bool)
}

// DirectReport collects the result of a Direct scenario shard.
type DirectReport struct {
	Cases      int64
	Nontrivial int64
	Classes    map[string]int64 // outcome histogram
	Samples    []string
	Viol       []Violation
}

func (d *DirectReport) Class(c string) {
	if d.Classes == nil {
		d.Classes = map[string]int64{}
	}
	d.Classes[c]++
}

func (d *DirectReport) Sample(s string) {
	if len(d.Samples) < 4 {
		d.Samples = append(d.Samples, s)
	}
}

// Fail records a violation (the first per oracle is kept).
func (d *DirectReport) Fail(oracle, msg, input string) {
	for _, v := range d.Viol {
		if v.Oracle == oracle {
			return
		}
	}
	d.Viol = append(d.Viol, Violation{Oracle: oracle, Msg: msg, Input: input})
}

var registry []*Scenario

func Register(s *Scenario) {
	for _, o := range registry {
		if o.Name == s.Name {
			panic("duplicate scenario " + s.Name)
		}
	}
	if s.Horizon == 0 {
		s.Horizon = 5000
	}
	registry = append(registry, s)
}

func Find(name string) *Scenario {
	for _, s := range registry {
		if s.Name == name {
			return s
		}
	}
	return nil
}

func ForProp(p string) []*Scenario {
	var out []*Scenario
	for _, s := range registry {
		for _, q := range s.Props {
			if q == p {
				out = append(out, s)
			}
		}
	}
	return out
}

func All() []*Scenario { return registry }

// Violation found by a worker.
type Violation struct {
	Scenario string
	Oracle   string
	Msg      string
	Prefix   []int32
	Pre      int // preemptions
	Dev      int
	Parked   []string
	Panics   []string
	Input    string // Direct scenarios
	Race     string // race report text (race mode)
}

// Stats of a batch / pass.
type Stats struct {
	Execs    int64
	Points   int64 // scheduling points executed (transitions)
	Nodes    int64 // distinct decision nodes of the choice tree visited (states)
	Ends     [8]int64
	MaxPts   int32
	MaxThr   int32
	Verified int64 // executions re-run and compared (determinism self-check)
	Horizon  int64
	Pruned   int64 // alternatives not explored because they exceed the preemption/deviation bound
	Finger   map[uint64]struct{}
}

func (s *Stats) Add(o *Stats) {
	s.Execs += o.Execs
	s.Points += o.Points
	s.Nodes += o.Nodes
	for i := range s.Ends {
		s.Ends[i] += o.Ends[i]
	}
	if o.MaxPts > s.MaxPts {
		s.MaxPts = o.MaxPts
	}
	if o.MaxThr > s.MaxThr {
		s.MaxThr = o.MaxThr
	}
	s.Verified += o.Verified
	s.Horizon += o.Horizon
	s.Pruned += o.Pruned
	if s.Finger == nil {
		s.Finger = map[uint64]struct{}{}
	}
	if len(s.Finger) < 4000000 {
		for k := range o.Finger {
			s.Finger[k] = struct{}{}
		}
	}
}

// Sample is one explored execution written out for the evidence file.
type Sample struct {
	Scenario string   `json:"scenario"`
	Choices  []int32  `json:"choices"`
	End      string   `json:"end"`
	Points   int32    `json:"points"`
	Threads  int32    `json:"threads"`
	Obs      []string `json:"observations,omitempty"`
}

var EndNames = [...]string{"complete", "quiescent-with-parked", "horizon", "oracle-failure", "divergence", "panic", "livelock", "?"}

func Fingerprint(r *vsched.Result) uint64 {
	h := fnv.New64a()
	var b [8]byte
	put := func(v int64) {
		for i := 0; i < 8; i++ {
			b[i] = byte(v >> (8 * i))
		}
		h.Write(b[:])
	}
	put(int64(r.EndReason))
	h.Write([]byte(r.Oracle))
	for _, o := range r.Obs {
		put(int64(o.Kind))
		put(int64(o.T))
		put(o.A)
		put(o.B)
		put(o.C)
	}
	for _, p := range r.Parked {
		h.Write([]byte(p))
	}
	return h.Sum64()
}

func obsStrings(s *Scenario, r *vsched.Result, max int) []string {
	var out []string
	for i, o := range r.Obs {
		if i >= max {
			out = append(out, fmt.Sprintf("... %d more", len(r.Obs)-max))
			break
		}
		name := fmt.Sprint(o.Kind)
		if n, ok := s.ObsNames[o.Kind]; ok {
			name = n
		}
		out = append(out, fmt.Sprintf("t%d %s(%d,%d,%d)", o.T, name, o.A, o.B, o.C))
	}
	return out
}

func MakeSample(s *Scenario, r *vsched.Result) Sample {
	return Sample{Scenario: s.Name, Choices: append([]int32{}, r.Taken...), End: EndNames[r.EndReason], Points: r.Points, Threads: r.Threads, Obs: obsStrings(s, r, 40)}
}

// Cfg builds the execution config.
func Cfg(s *Scenario, pfx []int32, dev int, trace bool) vsched.Config {
	return vsched.Config{Prefix: pfx, Horizon: s.Horizon, Manual: s.Manual, Det: s.Det, MapDev: dev > 0, Trace: trace}
}

// RunOne executes one prefix and applies the generic + scenario oracles.
func RunOne(s *Scenario, pfx []int32, dev int, trace bool) vsched.Result {
	r := vsched.Run(Cfg(s, pfx, dev, trace), s.Body)
	judge(s, &r)
	return r
}

func judge(s *Scenario, r *vsched.Result) {
	switch r.EndReason {
	case vsched.EndPanic:
		if s.PanicsOK {
			r.EndReason, r.Oracle, r.Msg = vsched.EndComplete, "", ""
			return
		}
		r.Oracle = "panic"
		if len(r.Panics) > 0 {
			r.Msg = firstLine(r.Panics[0])
		}
	case vsched.EndLivelock:
		r.Oracle = "livelock"
	case vsched.EndComplete, vsched.EndQuiescent:
		if s.MustFinish {
			for _, p := range r.Parked {
				if !strings.HasPrefix(p, ":") && !strings.HasPrefix(p, "timer:") {
					r.EndReason = vsched.EndFail
					r.Oracle = "stuck"
					r.Msg = "harness thread still parked at the end: " + strings.Join(r.Parked, ", ")
					return
				}
			}
		}
		if s.Post != nil {
			if o, m := s.Post(r); o != "" {
				r.EndReason = vsched.EndFail
				r.Oracle, r.Msg = o, m
			}
		}
	}
}

func firstLine(s string) string {
	if i := strings.IndexByte(s, '\n'); i >= 0 {
		return s[:i]
	}
	return s
}

// Costs returns the number of preemptions and deviations in a recorded execution.
func Costs(r *vsched.Result, delay bool) (pre, dev int) {
	for i := range r.Taken {
		if r.Kind[i] == vsched.KSched && (r.Pre[i] || delay) && r.Taken[i] != 0 {
			pre++
		}
		if r.Kind[i] == vsched.KDev && r.Taken[i] != 0 {
			dev++
		}
	}
	return
}

// TraceLines renders the event trace of a traced execution.
func TraceLines(r *vsched.Result) []string {
	var out []string
	for _, e := range r.Trace {
		name := ""
		if int(e.T) < len(r.Names) {
			name = r.Names[e.T]
		}
		if name == "" {
			name = fmt.Sprintf("g%d", e.T)
		}
		op := "?"
		if int(e.Op) < len(vsched.OpNames) {
			op = vsched.OpNames[e.Op]
		}
		out = append(out, fmt.Sprintf("step %3d  %-8s %-10s %s", e.Step, name, op, where(e.PC[:])))
	}
	return out
}

func where(pcs []uintptr) string {
	n := 0
	for n < len(pcs) && pcs[n] != 0 {
		n++
	}
	if n == 0 {
		return ""
	}
	fr := runtime.CallersFrames(pcs[:n])
	var parts []string
	for {
		f, more := fr.Next()
		if !strings.Contains(f.Function, "zzverif/") && f.Function != "" && !strings.HasPrefix(f.Function, "runtime.") {
			fn := f.Function
			if i := strings.LastIndex(fn, "/"); i >= 0 {
				fn = fn[i+1:]
			}
			parts = append(parts, fmt.Sprintf("%s (%s:%d)", fn, shortPath(f.File), f.Line))
			if len(parts) == 2 {
				break
			}
		}
		if !more {
			break
		}
	}
	return strings.Join(parts, " <- ")
}

func shortPath(p string) string {
	p = strings.TrimPrefix(p, "/repo/")
	if i := strings.Index(p, "/harness/"); i >= 0 {
		p = p[i+9:]
	}
	return p
}

func sortedKeys(m map[string]int64) []string {
	ks := make([]string, 0, len(m))
	for k := range m {
		ks = append(ks, k)
	}
	sort.Strings(ks)
	return ks
}

// APICalls returns, per thread, the exported library functions (API entry points) that
// appear outermost on the stacks of a traced execution.
func APICalls(r *vsched.Result) map[int32]map[string]bool {
	out := map[int32]map[string]bool{}
	for _, e := range r.Trace {
		n := 0
		for n < len(e.PC) && e.PC[n] != 0 {
			n++
		}
		if n == 0 {
			continue
		}
		fr := runtime.CallersFrames(e.PC[:n])
		api := ""
		for {
			f, more := fr.Next()
			fn := f.Function
			if strings.HasPrefix(fn, "github.com/aperturerobotics/util/") && !strings.Contains(fn, "/zzverif/") {
				short := strings.TrimPrefix(fn, "github.com/aperturerobotics/util/")
				// strip generic instantiation and closures
				if i := strings.Index(short, "["); i >= 0 {
					if j := strings.Index(short, "]"); j > i {
						short = short[:i] + short[j+1:]
					}
				}
				if i := strings.Index(short, ".func"); i >= 0 {
					short = short[:i]
				}
				name := short[strings.LastIndex(short, ".")+1:]
				if name != "" && name[0] >= 'A' && name[0] <= 'Z' {
					api = short // keep the outermost exported library function
				}
			}
			if !more {
				break
			}
		}
		if api != "" {
			if out[e.T] == nil {
				out[e.T] = map[string]bool{}
			}
			out[e.T][api] = true
		}
	}
	return out
}
