package eng

import (
	"encoding/gob"
	"encoding/json"
	"flag"
	"fmt"
	"io"
	"os"
	"os/exec"
	"path/filepath"
	"regexp"
	"runtime"
	"sort"
	"strconv"
	"strings"
	"sync"
	"time"
)

type worker struct {
	id      int
	execs   int64 // executions served since spawn (race-mode workers are recycled to bound TSan memory)
	cmd     *exec.Cmd
	enc     *gob.Encoder
	dec     *gob.Decoder
	in      io.WriteCloser
	curPath string
	logBase string
}

type master struct {
	prop     string
	tier     string
	race     bool
	nworkers int
	workDir  string
	deadline time.Time
	start    time.Time

	mu   sync.Mutex
	cond *sync.Cond
}

func (m *master) spawn(id int) (*worker, error) {
	w := &worker{id: id}
	cmd := exec.Command(os.Args[0], "-worker")
	cmd.Env = append(os.Environ(), "GOMAXPROCS=1", "VERIF_PROP="+m.prop)
	w.curPath = filepath.Join(m.workDir, fmt.Sprintf("cur.%d", id))
	cmd.Env = append(cmd.Env, "VERIF_CURFILE="+w.curPath)
	if m.race {
		w.logBase = filepath.Join(m.workDir, fmt.Sprintf("race.%d", id))
		cmd.Env = append(cmd.Env, "GORACE=halt_on_error=1 atexit_sleep_ms=0 exitcode=66 log_path="+w.logBase)
	}
	in, err := cmd.StdinPipe()
	if err != nil {
		return nil, err
	}
	out, err := cmd.StdoutPipe()
	if err != nil {
		return nil, err
	}
	cmd.Stderr = os.Stderr
	if err := cmd.Start(); err != nil {
		return nil, err
	}
	w.cmd, w.in = cmd, in
	w.enc = gob.NewEncoder(in)
	w.dec = gob.NewDecoder(out)
	return w, nil
}

func (w *worker) call(req *Req) (*Resp, error) {
	if err := w.enc.Encode(req); err != nil {
		return nil, err
	}
	var resp Resp
	if err := w.dec.Decode(&resp); err != nil {
		return nil, err
	}
	return &resp, nil
}

func (w *worker) stop() {
	w.in.Close()
	done := make(chan struct{})
	go func() { w.cmd.Wait(); close(done) }()
	select {
	case <-done:
	case <-time.After(5 * time.Second):
		w.cmd.Process.Kill()
		<-done
	}
}

// exitCode waits for a dead worker and returns its exit code.
func (w *worker) exitCode() int {
	w.in.Close()
	err := w.cmd.Wait()
	if err == nil {
		return 0
	}
	if ee, ok := err.(*exec.ExitError); ok {
		return ee.ExitCode()
	}
	return -1
}

type scnRun struct {
	s          *Scenario
	b          Bounds
	queue      [][]int32
	inflight   int
	skip       []string
	pass       int
	passStats  Stats // stats of the current pass
	lastStats  Stats // stats of the last completed pass
	total      Stats // all passes
	completed  int   // highest completed preemption bound (-1 none)
	incomplete string
	samples    []Sample
	viol       map[string]*Violation
	stopped    bool
	deaths     int
	active     bool
	unbounded  bool // the last pass pruned nothing: all interleavings explored
	direct     *DirectReport
	api        map[int32][]string
}

type infraErr struct{ msg string }

func die(code int, f string, a ...any) {
	fmt.Fprintf(os.Stderr, "vcheck: "+f+"\n", a...)
	os.Exit(code)
}

var goroot = runtime.GOROOT()

var raceHdr = regexp.MustCompile(`^(Write|Read|Previous write|Previous read|Atomic write|Atomic read|Previous atomic write|Previous atomic read) at 0x[0-9a-f]+ by `)

// parseRace extracts, for the first report in txt, the first non-runtime frame of each access.
var serialUserObj = regexp.MustCompile(`verifharness/scn\.\(\*(constBackoff|kbo|mBackoff)\)\.`)

func parseRace(txt string) (funcs [2]string, files [2]string, ok bool) {
	lines := strings.Split(txt, "\n")
	k := 0
	for i := 0; i < len(lines) && k < 2; i++ {
		if !raceHdr.MatchString(strings.TrimSpace(lines[i])) {
			continue
		}
		// frames follow: "  func()\n      file:line +0x.."
		for j := i + 1; j+1 < len(lines); j += 2 {
			fn := strings.TrimSpace(lines[j])
			if fn == "" {
				break
			}
			loc := strings.TrimSpace(lines[j+1])
			if strings.HasPrefix(fn, "runtime.") || strings.HasPrefix(fn, "internal/") || strings.HasPrefix(fn, "sync.") || strings.HasPrefix(fn, "sync/atomic.") {
				continue
			}
			// an access inside the standard library or a third-party module is attributed to the first
			// frame of our own code that led to it (library, harness or shim)
			if strings.Contains(loc, "/pkg/mod/") || strings.HasPrefix(loc, goroot+"/") {
				continue
			}
			// a harness object that stands for a user object the library is bound to call one call at a
			// time (a BackOff policy is not safe for concurrent use): its own frames are transparent too
			if serialUserObj.MatchString(fn) {
				continue
			}
			if p := strings.LastIndex(fn, "("); p > 0 {
				fn = fn[:p]
			}
			if sp := strings.Index(loc, " "); sp > 0 {
				loc = loc[:sp]
			}
			funcs[k], files[k] = fn, loc
			break
		}
		k++
	}
	return funcs, files, k == 2
}

// isLibFrame: the access is in a non-test source file of the library (decided by the file,
// because generic library functions instantiated by the harness carry the harness package
// in their symbol name).
func isLibFrame(fn, file string) bool {
	path := strings.SplitN(file, ":", 2)[0]
	if strings.Contains(fn, "/zzverif/") || strings.Contains(path, "/zzverif/") {
		return false
	}
	if strings.HasSuffix(path, "_test.go") {
		return false
	}
	root := os.Getenv("VERIF_REPO")
	if root == "" {
		root = "/repo"
	}
	if strings.HasPrefix(path, root+"/") {
		return true
	}
	return strings.HasPrefix(fn, "github.com/aperturerobotics/util/")
}

func shortFn(fn string) string {
	fn = strings.TrimPrefix(fn, "github.com/aperturerobotics/util/")
	if strings.HasPrefix(fn, "verifharness/") {
		// generic library function instantiated in the harness: keep the library identifiers only
		var keep []string
		for _, tok := range strings.Split(fn[strings.LastIndex(fn, "/")+1:], ".") {
			if tok == "scn" || tok == "init" || regexp.MustCompile(`^(func)?\d+$`).MatchString(tok) {
				continue
			}
			keep = append(keep, tok)
		}
		fn = strings.Join(keep, ".")
	}
	// strip generic instantiation noise and closure numbering
	fn = regexp.MustCompile(`\[[^\]]*\]`).ReplaceAllString(fn, "")
	fn = regexp.MustCompile(`\.func\d+(\.\d+)*$`).ReplaceAllString(fn, ".func")
	fn = regexp.MustCompile(`\.gowrap\d+$`).ReplaceAllString(fn, "")
	return fn
}

func readRaceLog(base string) string {
	ms, _ := filepath.Glob(base + ".*")
	var sb strings.Builder
	for _, f := range ms {
		b, _ := os.ReadFile(f)
		sb.Write(b)
		os.Remove(f)
	}
	return sb.String()
}

// Main is the harness entry point.
func Main() {
	var (
		isWorker = flag.Bool("worker", false, "worker mode")
		prop     = flag.String("prop", "", "property id")
		tier     = flag.String("tier", "quick", "quick|thorough")
		evidence = flag.String("evidence", "", "evidence file to write")
		known    = flag.String("known", "", "known findings file")
		cxdir    = flag.String("cxdir", "", "counterexample directory")
		workdir  = flag.String("workdir", "", "scratch directory")
		nw       = flag.Int("workers", 0, "worker processes")
		replay   = flag.String("replay", "", "counterexample file to replay")
		list     = flag.Bool("list", false, "list scenarios")
		only     = flag.String("scn", "", "restrict to scenarios (comma separated)")
		deadline = flag.Int("deadline", 0, "seconds after which no new work is issued")
		pbOver   = flag.Int("pb", -1, "override preemption bound")
	)
	flag.Parse()
	if *isWorker {
		WorkerMain()
		return
	}
	if *list {
		for _, s := range registry {
			fmt.Printf("%-28s %v %s\n", s.Name, s.Props, s.Doc)
		}
		return
	}
	n := *nw
	if n <= 0 {
		n = runtime.NumCPU()
		if n > 16 {
			n = 16
		}
	}
	m := &master{prop: *prop, tier: *tier, race: RaceEnabled, nworkers: n, workDir: *workdir, start: time.Now()}
	m.cond = sync.NewCond(&m.mu)
	if m.workDir == "" {
		d, err := os.MkdirTemp("", "vcheck")
		if err != nil {
			die(2, "%v", err)
		}
		m.workDir = d
		defer os.RemoveAll(d)
	}
	if *replay != "" {
		os.Exit(m.replayFile(*replay))
	}
	if *prop == "" {
		die(2, "need -prop")
	}
	dl := *deadline
	if dl == 0 {
		if *tier == "thorough" {
			dl = 1500
		} else {
			dl = 240
		}
	}
	m.deadline = m.start.Add(time.Duration(dl) * time.Second)
	os.Exit(m.run(*evidence, *known, *cxdir, *only, *pbOver))
}

func (m *master) scenarios(only string) []*scnRun {
	var list []*Scenario
	if m.prop == "C13" {
		if !m.race {
			die(2, "C13 needs the -race build of the harness")
		}
		for _, s := range registry {
			if !s.NoRace && s.Direct == nil {
				list = append(list, s)
			}
		}
	} else {
		list = ForProp(m.prop)
	}
	var out []*scnRun
	for _, s := range list {
		if only != "" && !strings.Contains(","+only+",", ","+s.Name+",") {
			continue
		}
		if (s.ThoroughOnly && m.tier != "thorough") || (s.QuickOnly && m.tier == "thorough") {
			continue
		}
		b := s.Quick
		if m.tier == "thorough" {
			b = s.Thorough
		}
		if m.prop == "C13" {
			// race mode explores one preemption less than the functional check (it is ~5x slower)
			if m.tier != "thorough" {
				lim := 1
				if s.RacePB > lim {
					lim = s.RacePB
				}
				if b.PB > lim {
					b.PB = lim
				}
			}
			if m.tier == "thorough" {
				if b.PB > 2 {
					b.PB = 2
				}
				if b.Cap == 0 || b.Cap > 3000000 {
					b.Cap = 3000000
				}
			}
		}
		if b.Cap == 0 {
			b.Cap = 3000000
			if m.tier == "thorough" {
				b.Cap = 20000000
			}
		}
		out = append(out, &scnRun{s: s, b: b, completed: -1, viol: map[string]*Violation{}})
	}
	return out
}

func (m *master) counts(oracle string) bool {
	if m.prop == "C13" {
		return strings.HasPrefix(oracle, "race:")
	}
	if len(oracle) > 4 && oracle[0] == 'C' && oracle[3] == '.' {
		return strings.HasPrefix(oracle, m.prop+".")
	}
	return true // generic oracle: panic, livelock, stuck, misuse
}

func (m *master) run(evPath, knownPath, cxdir, only string, pbOver int) int {
	runs := m.scenarios(only)
	if len(runs) == 0 {
		die(2, "no scenarios for property %s", m.prop)
	}
	if pbOver >= 0 {
		for _, r := range runs {
			r.b.PB = pbOver
		}
	}
	maxPB := 0
	for _, r := range runs {
		if r.b.PB > maxPB {
			maxPB = r.b.PB
		}
	}
	workers := make([]*worker, m.nworkers)
	for i := range workers {
		w, err := m.spawn(i)
		if err != nil {
			die(2, "spawn worker: %v", err)
		}
		workers[i] = w
	}
	var infra string
	setInfra := func(s string) {
		if infra == "" {
			infra = s
		}
	}
	// direct scenarios first (sharded over workers)
	for _, r := range runs {
		if r.s.Direct == nil {
			continue
		}
		r.direct = &DirectReport{Classes: map[string]int64{}}
		ns := m.nworkers
		var wg sync.WaitGroup
		for i := 0; i < ns; i++ {
			wg.Add(1)
			go func(i int) {
				defer wg.Done()
				resp, err := workers[i].call(&Req{Scenario: r.s.Name, Direct: true, Shard: i, NShards: ns, Thorough: m.tier == "thorough"})
				m.mu.Lock()
				defer m.mu.Unlock()
				if err != nil {
					setInfra(fmt.Sprintf("direct scenario %s shard %d: worker died: %v", r.s.Name, i, err))
					return
				}
				if resp.Err != "" {
					setInfra(resp.Err)
					return
				}
				d := resp.Direct
				r.direct.Cases += d.Cases
				r.direct.Nontrivial += d.Nontrivial
				for k, v := range d.Classes {
					r.direct.Classes[k] += v
				}
				for _, s := range d.Samples {
					r.direct.Sample(s)
				}
				for _, v := range d.Viol {
					v := v
					if _, ok := r.viol[v.Oracle]; !ok {
						r.viol[v.Oracle] = &v
					}
				}
			}(i)
		}
		wg.Wait()
		r.completed = 0
		if infra != "" {
			die(2, "%s", infra)
		}
	}
	// iterative preemption bounding
	var passes []int
	for b := 0; b <= maxPB; b++ {
		if b <= 3 || b == maxPB || maxPB <= 6 {
			passes = append(passes, b)
		}
	}
	for _, r := range runs {
		if r.b.PB > 3 && r.b.PB < maxPB && maxPB > 6 {
			passes = append(passes, r.b.PB)
		}
	}
	sort.Ints(passes)
	for pi, pass := range passes {
		if pi > 0 && passes[pi-1] == pass {
			continue
		}
		if infra != "" {
			break
		}
		if pass > 0 && time.Now().After(m.deadline) {
			break
		}
		active := 0
		for _, r := range runs {
			r.active = false
			if r.s.Direct != nil || pass > r.b.PB || r.stopped {
				continue
			}
			if r.b.PB > 3 && maxPB > 6 && pass > 3 && pass != r.b.PB {
				continue
			}
			r.active = true
			r.pass = pass
			r.passStats = Stats{}
			r.queue = [][]int32{{}}
			r.incomplete = ""
			active++
		}
		if active == 0 {
			break
		}
		var wg sync.WaitGroup
		for wi := range workers {
			wg.Add(1)
			go func(wi int) {
				defer wg.Done()
				for {
					m.mu.Lock()
					var r *scnRun
					for {
						if infra != "" {
							m.mu.Unlock()
							return
						}
						pending := false
						for _, c := range runs {
							if !c.active {
								continue
							}
							if len(c.queue) > 0 && c.incomplete == "" {
								if r == nil || len(c.queue) > len(r.queue) {
									r = c
								}
							}
							if c.inflight > 0 || (len(c.queue) > 0 && c.incomplete == "") {
								pending = true
							}
						}
						if r != nil {
							break
						}
						if !pending {
							m.mu.Unlock()
							m.cond.Broadcast()
							return
						}
						m.cond.Wait()
					}
					if time.Now().After(m.deadline) && pass > 0 {
						r.incomplete = "deadline"
						r.queue = nil
						m.mu.Unlock()
						m.cond.Broadcast()
						continue
					}
					if r.passStats.Execs > r.b.Cap {
						r.incomplete = fmt.Sprintf("execution cap %d", r.b.Cap)
						r.queue = nil
						m.mu.Unlock()
						m.cond.Broadcast()
						continue
					}
					take := (len(r.queue) + 2*m.nworkers - 1) / (2 * m.nworkers)
					if take > 512 {
						take = 512
					}
					if take < 1 {
						take = 1
					}
					items := append([][]int32{}, r.queue[len(r.queue)-take:]...)
					r.queue = r.queue[:len(r.queue)-take]
					r.inflight++
					budget := 4000
					if m.race {
						budget = 800
					}
					if len(r.queue) < 2*m.nworkers {
						budget = 300
					}
					req := &Req{Scenario: r.s.Name, PB: pass, Dev: r.b.Dev, Delay: r.b.Delay, Items: items, Budget: budget, Skip: append([]string{}, r.skip...), VerifyK: 50, Samples: 0}
					if len(r.samples) < 3 {
						req.Samples = 2
					}
					m.mu.Unlock()

					resp, err := workers[wi].call(req)

					m.mu.Lock()
					r.inflight--
					if err != nil {
						code := workers[wi].exitCode()
						if m.race && code == 66 {
							txt := readRaceLog(workers[wi].logBase)
							pfx, perr := ReadCurrent(workers[wi].curPath)
							if perr != nil {
								setInfra("race worker died, cannot read its current prefix: " + perr.Error())
							} else {
								m.noteRace(r, pfx, txt)
								r.skip = append(r.skip, key(pfx))
								r.queue = append(r.queue, items...)
							}
							nw, serr := m.spawn(wi)
							if serr != nil {
								setInfra("respawn: " + serr.Error())
							} else {
								workers[wi] = nw
							}
						} else if code == 67 {
							// the worker's watchdog: a managed thread ran for 90 s without reaching a scheduling
							// point: a busy loop that performs no synchronisation (no horizon can end it)
							pfx, _ := ReadCurrent(workers[wi].curPath)
							v := &Violation{Scenario: r.s.Name, Oracle: "livelock", Msg: "a thread ran for 90 s without reaching a single scheduling point: a busy loop that performs no synchronisation", Prefix: pfx, Pre: countNonZero(pfx)}
							if o, ok := r.viol[v.Oracle]; !ok || better(v, o) {
								r.viol[v.Oracle] = v
							}
							r.queue = nil
							r.incomplete = "stopped: busy loop without scheduling points"
							if nw, serr := m.spawn(wi); serr != nil {
								setInfra("respawn: " + serr.Error())
							} else {
								workers[wi] = nw
							}
						} else {
							// unexpected death (e.g. killed by the OS): retry the batch once on a fresh worker
							r.deaths++
							fmt.Fprintf(os.Stderr, "vcheck: worker %d died (exit %d) on scenario %s: %v; respawning\n", wi, code, r.s.Name, err)
							if r.deaths > 3 {
								setInfra(fmt.Sprintf("worker %d died repeatedly (exit %d) on scenario %s: %v", wi, code, r.s.Name, err))
							} else if nw, serr := m.spawn(wi); serr != nil {
								setInfra("respawn: " + serr.Error())
							} else {
								workers[wi] = nw
								r.queue = append(r.queue, items...)
							}
						}
					} else if resp.Err != "" {
						setInfra(resp.Err)
					} else {
						workers[wi].execs += resp.Stats.Execs
						if m.race && workers[wi].execs > 150000 {
							old := workers[wi]
							if nw, serr := m.spawn(wi); serr == nil {
								workers[wi] = nw
								go old.stop()
							}
						}
						r.queue = append(r.queue, resp.Left...)
						r.passStats.Add(&resp.Stats)
						for _, sm := range resp.Samples {
							if len(r.samples) < 3 {
								r.samples = append(r.samples, sm)
							}
						}
						for i := range resp.Viol {
							v := resp.Viol[i]
							if o, ok := r.viol[v.Oracle]; !ok || better(&v, o) {
								r.viol[v.Oracle] = &v
							}
						}
					}
					m.mu.Unlock()
					m.cond.Broadcast()
				}
			}(wi)
		}
		wg.Wait()
		for _, r := range runs {
			if !r.active {
				continue
			}
			r.total.Add(&r.passStats)
			if r.incomplete == "" {
				r.completed = pass
				r.lastStats = r.passStats
				if r.passStats.Pruned == 0 && r.passStats.Execs > 0 && len(r.viol) == 0 {
					// nothing was cut by the bound: every interleaving has been explored
					r.unbounded = true
					r.completed = r.b.PB
					r.stopped = true
				}
			} else {
				if r.completed < 0 {
					r.lastStats = r.passStats
				}
				r.stopped = true
			}
		}
	}
	if infra != "" {
		for _, w := range workers {
			if w != nil {
				w.cmd.Process.Kill()
			}
		}
		die(2, "%s", infra)
	}
	// API coverage: one traced execution of the default schedule per scenario
	for _, r := range runs {
		if r.s.Direct != nil {
			continue
		}
		resp, err := workers[0].call(&Req{Scenario: r.s.Name, Dev: r.b.Dev, Items: [][]int32{{}}, Replay: true, Times: 1})
		if err != nil || resp.Err != "" {
			continue
		}
		r.api = resp.API
	}
	// confirm + classify violations
	kf := loadKnown(knownPath)
	exit := 0
	nviol := 0
	var lines []string
	for _, r := range runs {
		oracles := make([]string, 0, len(r.viol))
		for o := range r.viol {
			oracles = append(oracles, o)
		}
		sort.Strings(oracles)
		for _, o := range oracles {
			v := r.viol[o]
			if !m.counts(o) {
				fmt.Printf("note: scenario %s also hit oracle %s (belongs to another property's check)\n", r.s.Name, o)
				continue
			}
			var trace []string
			if r.s.Direct == nil && !strings.HasPrefix(o, "race:") {
				resp, err := workers[0].call(&Req{Scenario: r.s.Name, Dev: r.b.Dev, Items: [][]int32{v.Prefix}, Replay: true, Times: 5})
				if err != nil {
					die(2, "replay of violation %s/%s failed: %v", r.s.Name, o, err)
				}
				for i := range resp.ReplayOracle {
					if resp.ReplayOracle[i] != o || resp.ReplayFP[i] != resp.ReplayFP[0] {
						die(2, "violation %s/%s is not reproducible on replay (%v): refusing to report it", r.s.Name, o, resp.ReplayOracle)
					}
				}
				trace = resp.Trace
			}
			if strings.HasPrefix(o, "race:") {
				// confirm twice in fresh race workers
				for i := 0; i < 2; i++ {
					w, err := m.spawn(100 + i)
					if err != nil {
						die(2, "spawn: %v", err)
					}
					_, err = w.call(&Req{Scenario: r.s.Name, Dev: r.b.Dev, Items: [][]int32{v.Prefix}, Replay: true, Times: 1})
					code := 0
					if err != nil {
						code = w.exitCode()
					} else {
						w.stop()
					}
					txt := readRaceLog(w.logBase)
					fn, fl, ok := parseRace(txt)
					if code != 66 || !ok || raceKey(fn, fl) != o {
						die(2, "race %s in %s is not reproducible on replay (exit %d): refusing to report it", o, r.s.Name, code)
					}
				}
			}
			nviol++
			if what, ok := kf.match(m.prop, r.s.Name, o); ok {
				lines = append(lines, fmt.Sprintf("KNOWN-FINDING: property=%s scenario=%s oracle=%s %s", m.prop, r.s.Name, o, what))
				continue
			}
			path := m.writeCx(cxdir, r, v, trace)
			lines = append(lines, fmt.Sprintf("VIOLATION property=%s replay=%s", m.prop, path))
			fmt.Printf("violation: scenario=%s oracle=%s preemptions=%d: %s\n", r.s.Name, o, v.Pre, v.Msg)
			exit = 1
		}
	}
	for _, w := range workers {
		w.stop()
	}
	m.writeEvidence(evPath, runs, nviol)
	m.summary(runs)
	for _, l := range lines {
		fmt.Println(l)
	}
	return exit
}

func raceKey(fn [2]string, fl [2]string) string {
	a, b := shortFn(fn[0]), shortFn(fn[1])
	if strings.HasPrefix(fn[0], "verifharness/") {
		a = shortPath(strings.SplitN(fl[0], ":", 2)[0]) + ":" + a
	}
	if strings.HasPrefix(fn[1], "verifharness/") {
		b = shortPath(strings.SplitN(fl[1], ":", 2)[0]) + ":" + b
	}
	if a > b {
		a, b = b, a
	}
	return "race:" + a + "|" + b
}

func (m *master) noteRace(r *scnRun, pfx []int32, txt string) {
	fn, fl, ok := parseRace(txt)
	if !ok {
		fmt.Fprintf(os.Stderr, "vcheck: unparsable race report in scenario %s:\n%s\n", r.s.Name, txt)
		return
	}
	if !isLibFrame(fn[0], fl[0]) && !isLibFrame(fn[1], fl[1]) {
		fmt.Fprintf(os.Stderr, "vcheck: note: race report without a library access frame in scenario %s (harness bug, ignored for C13): %s %s / %s %s\n", r.s.Name, fn[0], fl[0], fn[1], fl[1])
		return
	}
	k := raceKey(fn, fl)
	v := &Violation{Scenario: r.s.Name, Oracle: k, Msg: fmt.Sprintf("data race: %s (%s) vs %s (%s)", shortFn(fn[0]), shortPath(fl[0]), shortFn(fn[1]), shortPath(fl[1])), Prefix: pfx, Race: txt, Pre: countNonZero(pfx)}
	if o, ok := r.viol[k]; !ok || better(v, o) {
		r.viol[k] = v
	}
}

func countNonZero(p []int32) int {
	n := 0
	for _, v := range p {
		if v != 0 {
			n++
		}
	}
	return n
}

// ---- known findings ----

type knownFile struct {
	Findings []struct {
		Property string `json:"property"`
		Scenario string `json:"scenario"`
		Oracle   string `json:"oracle"`
		What     string `json:"what"`
	} `json:"findings"`
	Fixed []json.RawMessage `json:"fixed"`
}

func loadKnown(path string) *knownFile {
	k := &knownFile{}
	if path == "" {
		return k
	}
	b, err := os.ReadFile(path)
	if err != nil {
		return k
	}
	if err := json.Unmarshal(b, k); err != nil {
		die(2, "known findings file %s: %v", path, err)
	}
	return k
}

func (k *knownFile) match(prop, scn, oracle string) (string, bool) {
	for _, f := range k.Findings {
		if f.Property == prop && f.Scenario == scn && f.Oracle == oracle {
			return f.What, true
		}
	}
	return "", false
}

// ---- counterexamples ----

type cxFile struct {
	Property    string   `json:"property"`
	Scenario    string   `json:"scenario"`
	Oracle      string   `json:"oracle"`
	Message     string   `json:"message"`
	Choices     []int32  `json:"choices"`
	Preemptions int      `json:"preemptions"`
	Deviations  int      `json:"deviations"`
	Dev         int      `json:"dev_bound"`
	Race        bool     `json:"race_build"`
	Input       string   `json:"input,omitempty"`
	Parked      []string `json:"parked,omitempty"`
	Panics      []string `json:"panics,omitempty"`
	Trace       []string `json:"trace,omitempty"`
	RaceReport  string   `json:"race_report,omitempty"`
}

func sanitize(s string) string {
	return regexp.MustCompile(`[^A-Za-z0-9_.-]+`).ReplaceAllString(s, "_")
}

func (m *master) writeCx(dir string, r *scnRun, v *Violation, trace []string) string {
	if dir == "" {
		dir = "."
	}
	os.MkdirAll(dir, 0o755)
	o := sanitize(v.Oracle)
	if len(o) > 80 {
		o = o[:80]
	}
	path := filepath.Join(dir, fmt.Sprintf("%s-%s-%s.json", m.prop, r.s.Name, o))
	cx := cxFile{Property: m.prop, Scenario: r.s.Name, Oracle: v.Oracle, Message: v.Msg, Choices: v.Prefix, Preemptions: v.Pre, Deviations: v.Dev, Dev: r.b.Dev, Race: m.race, Input: v.Input, Parked: v.Parked, Panics: v.Panics, Trace: trace, RaceReport: v.Race}
	b, _ := json.MarshalIndent(cx, "", " ")
	if err := os.WriteFile(path, b, 0o644); err != nil {
		die(2, "%v", err)
	}
	return path
}

func (m *master) replayFile(path string) int {
	b, err := os.ReadFile(path)
	if err != nil {
		die(2, "%v", err)
	}
	var cx cxFile
	if err := json.Unmarshal(b, &cx); err != nil {
		die(2, "%v", err)
	}
	s := Find(cx.Scenario)
	if s == nil {
		die(2, "unknown scenario %s", cx.Scenario)
	}
	if cx.Race != m.race {
		die(2, "counterexample was recorded with race=%v but this binary has race=%v", cx.Race, m.race)
	}
	if s.Direct != nil {
		fmt.Printf("direct scenario %s: input %s: %s\n(re-run the check to re-enumerate)\n", cx.Scenario, cx.Input, cx.Message)
		return 1
	}
	w, err := m.spawn(0)
	if err != nil {
		die(2, "%v", err)
	}
	resp, err := w.call(&Req{Scenario: cx.Scenario, Dev: cx.Dev, Items: [][]int32{cx.Choices}, Replay: true, Times: 2})
	if err != nil {
		code := w.exitCode()
		if m.race && code == 66 {
			txt := readRaceLog(w.logBase)
			fmt.Println(txt)
			fn, fl, ok := parseRace(txt)
			if ok && raceKey(fn, fl) == cx.Oracle {
				fmt.Printf("REPRODUCED %s in scenario %s\n", cx.Oracle, cx.Scenario)
				return 1
			}
			fmt.Printf("a different race was reported\n")
			return 1
		}
		die(2, "worker died: %v (exit %d)", err, code)
	}
	w.stop()
	for _, l := range resp.Trace {
		fmt.Println(l)
	}
	if len(resp.Samples) > 0 {
		fmt.Println("observations:", strings.Join(resp.Samples[0].Obs, " "))
		fmt.Println("end:", resp.Samples[0].End)
	}
	if len(resp.ReplayParked) > 0 {
		fmt.Println("parked at end:", strings.Join(resp.ReplayParked, ", "))
	}
	for _, p := range resp.ReplayPanics {
		fmt.Println("panic:", p)
	}
	if resp.ReplayOracle[0] == cx.Oracle && resp.ReplayOracle[1] == cx.Oracle {
		fmt.Printf("REPRODUCED %s: %s\n", cx.Oracle, resp.ReplayMsg)
		return 1
	}
	fmt.Printf("not reproduced (oracle now %q)\n", resp.ReplayOracle[0])
	return 0
}

// ---- evidence ----

func (m *master) writeEvidence(path string, runs []*scnRun, nviol int) {
	if path == "" {
		return
	}
	var states, trans, evals, verified int64
	finger := map[uint64]struct{}{}
	exhaustive := true
	var samples []any
	var per []map[string]any
	var directCases, directNontriv int64
	for _, r := range runs {
		if r.s.Direct != nil {
			d := r.direct
			directCases += d.Cases
			directNontriv += d.Nontrivial
			states += d.Cases
			trans += d.Cases
			evals += d.Cases
			for _, s := range d.Samples {
				samples = append(samples, map[string]any{"scenario": r.s.Name, "case": s})
			}
			per = append(per, map[string]any{"scenario": r.s.Name, "kind": "exhaustive input enumeration", "doc": r.s.Doc, "cases": d.Cases, "nontrivial": d.Nontrivial, "outcome_histogram": d.Classes, "exhaustive": true})
			continue
		}
		states += r.lastStats.Nodes
		trans += r.lastStats.Points
		evals += r.total.Execs
		verified += r.total.Verified
		for k := range r.total.Finger {
			finger[k^uint64(len(r.s.Name))*0x9e3779b97f4a7c15] = struct{}{}
		}
		ex := r.incomplete == "" && r.completed == r.b.PB && r.total.Horizon == 0
		if !ex {
			exhaustive = false
		}
		ends := map[string]int64{}
		for i, c := range r.lastStats.Ends {
			if c > 0 {
				ends[EndNames[i]] = c
			}
		}
		for _, s := range r.samples {
			samples = append(samples, s)
		}
		kind := "all interleavings up to the preemption bound (stateless DFS, iterative context bounding)"
		if r.b.Delay {
			kind = "all schedules within the deviation bound: every departure from the canonical schedule (running thread first, then ascending thread id) costs one, including choices at points where the running thread blocked (delay-bounded scheduling, iterated 0..bound)"
		}
		if r.s.Det {
			kind = "all operation sequences (harness choices) under the deterministic default schedule"
		}
		per = append(per, map[string]any{
			"scenario": r.s.Name, "doc": r.s.Doc, "kind": kind,
			"bound_mode": map[bool]string{false: "preemptions", true: "schedule deviations (delays)"}[r.b.Delay], "preemption_bound_requested": r.b.PB, "preemption_bound_completed": r.completed, "deviation_bound": r.b.Dev,
			"executions_last_pass": r.lastStats.Execs, "executions_all_passes": r.total.Execs,
			"decision_nodes": r.lastStats.Nodes, "scheduling_points": r.lastStats.Points,
			"distinct_outcomes": len(r.total.Finger), "end_histogram": ends,
			"max_points_per_execution": r.lastStats.MaxPts, "max_threads": r.lastStats.MaxThr,
			"determinism_reruns": r.total.Verified, "horizon_hits": r.total.Horizon,
			"incomplete_reason": r.incomplete, "exhaustive_within_bound": ex, "all_interleavings_explored": r.unbounded, "alternatives_pruned_by_bound": r.lastStats.Pruned,
			"violating_oracles":                      len(r.viol),
			"library_api_by_thread_default_schedule": apiTable(r.api),
		})
	}
	pairSet := map[string]bool{}
	for _, r := range runs {
		for t1, f1 := range r.api {
			for t2, f2 := range r.api {
				if t1 >= t2 {
					continue
				}
				for _, a := range f1 {
					for _, b := range f2 {
						if strings.HasPrefix(a, "broadcast.") && strings.HasPrefix(b, "broadcast.") && !strings.HasPrefix(r.s.Name, "bcast") {
							continue // internal use of Broadcast by other packages' goroutines
						}
						if a > b {
							a, b = b, a
						}
						pairSet[a+" || "+b] = true
					}
				}
			}
		}
	}
	pairs := make([]string, 0, len(pairSet))
	for p := range pairSet {
		pairs = append(pairs, p)
	}
	sort.Strings(pairs)
	distinct := int64(len(finger)) + directNontriv
	if len(samples) == 0 {
		samples = append(samples, "no executions")
	}
	if states < 1 {
		states = 1
	}
	if trans < 1 {
		trans = 1
	}
	seed := 0
	if s := os.Getenv("VERIF_SEED"); s != "" {
		seed, _ = strconv.Atoi(s)
	}
	ev := map[string]any{
		"property_id": m.prop,
		"tier":        m.tier,
		"seed":        seed,
		"level":       "model_checking",
		"wall_s":      time.Since(m.start).Seconds(),
		"violations":  nviol,
		"coverage": map[string]any{
			"states":                        states,
			"transitions":                   trans,
			"traces_validated_against_impl": evals,
			"evaluations":                   evals,
			"distinct_nontrivial":           distinct,
			"rule":                          "Every execution is a run of the real (instrumented) library under the controlled scheduler; the explorer enumerates all choice sequences (thread schedules up to the preemption bound, ready-select outcomes, harness data choices, map-order deviations up to the deviation bound). states = decision nodes of the choice tree visited in the deepest completed pass; transitions = scheduling points executed in that pass; evaluations = executions over all passes; distinct_nontrivial = distinct terminal fingerprints (end reason + full harness observation log + parked set), i.e. observably different behaviours; exhaustive = every scenario completed its requested bound without hitting a cap, deadline or horizon. For input enumerations: cases and cases reaching a non-degenerate branch.",
			"samples":                       samples,
			"exhaustive":                    exhaustive,
			"determinism_reruns":            verified,
			"race_build":                    m.race,
			"workers":                       m.nworkers,
			"scenarios":                     per,
			"library_api_pairs_run_by_different_threads": pairs,
			"seed_note": "the exploration is deterministic and exhaustive within the bounds; VERIF_SEED is recorded but not used",
		},
		"assumptions": []string{
			"sequentially consistent interleavings of visible operations (sync, atomic, channel, context, timer operations and the point after every unlock); plain accesses between two points are atomic (C13 checks separately that they do not race)",
			"Go compiler/runtime, package context, hchan header layout (self-tested at worker start), ThreadSanitizer for the race build",
			"source instrumentation by tools/vrewrite preserves semantics (the repository's own tests pass on the instrumented sources with pass-through shims: vcheck selftest)",
			"bounded: the listed scenarios, thread counts, preemption/deviation bounds and history depths only",
		},
	}
	os.MkdirAll(filepath.Dir(path), 0o755)
	b, _ := json.MarshalIndent(ev, "", " ")
	if err := os.WriteFile(path, b, 0o644); err != nil {
		die(2, "%v", err)
	}
}

func (m *master) summary(runs []*scnRun) {
	for _, r := range runs {
		if r.s.Direct != nil {
			fmt.Printf("%-26s cases=%d nontrivial=%d classes=%d\n", r.s.Name, r.direct.Cases, r.direct.Nontrivial, len(r.direct.Classes))
			continue
		}
		inc := ""
		if r.incomplete != "" {
			inc = " INCOMPLETE(" + r.incomplete + ")"
		}
		if r.unbounded && r.s.Det {
			inc += " ALL-SEQUENCES"
		} else if r.unbounded {
			inc += " ALL-INTERLEAVINGS"
		}
		mode := "pb"
		if r.b.Delay {
			mode = "db"
		}
		fmt.Printf("%-26s %s=%d/%d execs=%d (last pass %d) nodes=%d points=%d outcomes=%d ends=%v maxpts=%d thr=%d%s\n", r.s.Name, mode, r.completed, r.b.PB, r.total.Execs, r.lastStats.Execs, r.lastStats.Nodes, r.lastStats.Points, len(r.total.Finger), r.lastStats.Ends, r.lastStats.MaxPts, r.lastStats.MaxThr, inc)
	}
	fmt.Printf("wall %.1fs\n", time.Since(m.start).Seconds())
}

// apiTable renders the exported library functions each thread executed in the traced default schedule.
func apiTable(api map[int32][]string) map[string][]string {
	out := map[string][]string{}
	for t, fs := range api {
		sort.Strings(fs)
		out[fmt.Sprintf("thread%d", t)] = fs
	}
	return out
}
