//go:build race

package eng

const RaceEnabled = true
