package eng

import (
	"encoding/binary"
	"encoding/gob"
	"fmt"
	"io"
	"os"
	"reflect"
	"time"

	"github.com/aperturerobotics/util/zzverif/vsched"
)

// Req is one batch of work for a worker.
type Req struct {
	Scenario string
	PB, Dev  int
	Delay    bool
	Items    [][]int32
	Budget   int
	Skip     []string // prefixes (as strings) never to execute (race mode: known racy)
	VerifyK  int      // re-run every k-th execution and compare (0 = never)
	Samples  int      // number of samples wanted
	// Replay: run Items[0] Times times with tracing and return the traces.
	Replay bool
	Times  int
	// Direct scenarios
	Direct   bool
	Shard    int
	NShards  int
	Thorough bool
}

// Resp is the worker's answer.
type Resp struct {
	Left    [][]int32
	Stats   Stats
	Viol    []Violation
	Samples []Sample
	Err     string // infrastructure problem (divergence, nondeterminism)
	// Replay
	ReplayOracle []string
	ReplayFP     []uint64
	Trace        []string
	ReplayMsg    string
	ReplayParked []string
	ReplayPanics []string
	Direct       *DirectReport
	API          map[int32][]string // replay: exported library functions per thread
}

func key(p []int32) string {
	b := make([]byte, 0, len(p)*2)
	for _, v := range p {
		b = append(b, byte('0'+v%64), byte('0'+v/64))
	}
	return string(b)
}

// curFile lets the master learn which prefix was running when a race-mode worker died.
var curFile *os.File

func noteCurrent(p []int32) {
	if curFile == nil {
		return
	}
	buf := make([]byte, 4+4*len(p))
	binary.LittleEndian.PutUint32(buf, uint32(len(p)))
	for i, v := range p {
		binary.LittleEndian.PutUint32(buf[4+4*i:], uint32(v))
	}
	curFile.WriteAt(buf, 0)
}

func ReadCurrent(path string) ([]int32, error) {
	b, err := os.ReadFile(path)
	if err != nil {
		return nil, err
	}
	if len(b) < 4 {
		return nil, fmt.Errorf("short cur file")
	}
	n := int(binary.LittleEndian.Uint32(b))
	if len(b) < 4+4*n {
		return nil, fmt.Errorf("short cur file")
	}
	out := make([]int32, n)
	for i := range out {
		out[i] = int32(binary.LittleEndian.Uint32(b[4+4*i:]))
	}
	return out, nil
}

func sameRun(a, b *vsched.Result) bool {
	return a.EndReason == b.EndReason && a.Oracle == b.Oracle &&
		reflect.DeepEqual(a.Taken, b.Taken) && reflect.DeepEqual(a.NOpts, b.NOpts) &&
		reflect.DeepEqual(a.Kind, b.Kind) && reflect.DeepEqual(a.Obs, b.Obs) && reflect.DeepEqual(a.Parked, b.Parked)
}

func better(a, b *Violation) bool { // a better (smaller) than b
	if a.Pre != b.Pre {
		return a.Pre < b.Pre
	}
	if a.Dev != b.Dev {
		return a.Dev < b.Dev
	}
	return len(a.Prefix) < len(b.Prefix)
}

func handle(req *Req) *Resp {
	resp := &Resp{}
	s := Find(req.Scenario)
	if s == nil {
		resp.Err = "unknown scenario " + req.Scenario
		return resp
	}
	if req.Direct {
		d := &DirectReport{}
		s.Direct(d, req.Shard, req.NShards, req.Thorough)
		for i := range d.Viol {
			d.Viol[i].Scenario = s.Name
		}
		resp.Direct = d
		return resp
	}
	if req.Replay {
		for i := 0; i < req.Times; i++ {
			r := RunOne(s, req.Items[0], req.Dev, i == 0)
			resp.ReplayOracle = append(resp.ReplayOracle, r.Oracle)
			resp.ReplayFP = append(resp.ReplayFP, Fingerprint(&r))
			if i == 0 {
				resp.Trace = TraceLines(&r)
				resp.ReplayMsg = r.Msg
				resp.ReplayParked = r.Parked
				resp.ReplayPanics = r.Panics
				resp.Samples = append(resp.Samples, MakeSample(s, &r))
				resp.API = map[int32][]string{}
				for t, set := range APICalls(&r) {
					for f := range set {
						resp.API[t] = append(resp.API[t], f)
					}
				}
			}
		}
		return resp
	}
	skip := map[string]bool{}
	for _, k := range req.Skip {
		skip[k] = true
	}
	best := map[string]*Violation{}
	st := &resp.Stats
	st.Finger = map[uint64]struct{}{}
	stack := req.Items
	n := 0
	for len(stack) > 0 && n < req.Budget {
		pfx := stack[len(stack)-1]
		stack = stack[:len(stack)-1]
		if len(skip) > 0 && skip[key(pfx)] {
			continue
		}
		noteCurrent(pfx)
		r := RunOne(s, pfx, req.Dev, false)
		n++
		if r.EndReason == vsched.EndDiverge {
			resp.Err = fmt.Sprintf("scenario %s: %s: %s at prefix %v", s.Name, r.Oracle, r.Msg, pfx)
			return resp
		}
		if req.VerifyK > 0 && (n%req.VerifyK == 1 || r.EndReason >= vsched.EndFail) {
			r2 := RunOne(s, pfx, req.Dev, false)
			st.Verified++
			if !sameRun(&r, &r2) {
				resp.Err = fmt.Sprintf("scenario %s: NONDETERMINISM replaying prefix %v: %v/%v vs %v/%v", s.Name, pfx, r.Taken, r.Obs, r2.Taken, r2.Obs)
				return resp
			}
		}
		st.Execs++
		st.Points += int64(r.Points)
		st.Nodes += int64(len(r.Taken) - len(pfx))
		if len(pfx) == 0 {
			st.Nodes++
		}
		st.Ends[r.EndReason]++
		if r.Points > st.MaxPts {
			st.MaxPts = r.Points
		}
		if r.Threads > st.MaxThr {
			st.MaxThr = r.Threads
		}
		if r.EndReason == vsched.EndHorizon {
			st.Horizon++
		}
		if len(st.Finger) < 200000 {
			st.Finger[Fingerprint(&r)] = struct{}{}
		}
		if len(resp.Samples) < req.Samples && (len(resp.Samples) == 0 || len(pfx) > 0) {
			resp.Samples = append(resp.Samples, MakeSample(s, &r))
		}
		if r.Oracle != "" && r.EndReason != vsched.EndHorizon {
			pre, dev := Costs(&r, req.Delay)
			v := &Violation{Scenario: s.Name, Oracle: r.Oracle, Msg: r.Msg, Prefix: append([]int32{}, r.Taken...), Pre: pre, Dev: dev, Parked: r.Parked, Panics: r.Panics}
			if o, ok := best[r.Oracle]; !ok || better(v, o) {
				best[r.Oracle] = v
			}
		}
		// expand alternatives at positions >= len(pfx)
		pre, dev := 0, 0
		for i := 0; i < len(r.Taken); i++ {
			if i >= len(pfx) {
				for alt := r.NOpts[i] - 1; alt >= 0; alt-- {
					if alt == r.Taken[i] {
						continue
					}
					c, d := pre, dev
					if r.Kind[i] == vsched.KSched && (r.Pre[i] || req.Delay) && alt != 0 {
						c++
					}
					if r.Kind[i] == vsched.KDev && alt != 0 {
						d++
					}
					if c > req.PB || d > req.Dev {
						st.Pruned++
						continue
					}
					p := make([]int32, i+1)
					copy(p, r.Taken[:i])
					p[i] = alt
					stack = append(stack, p)
				}
			}
			if r.Kind[i] == vsched.KSched && (r.Pre[i] || req.Delay) && r.Taken[i] != 0 {
				pre++
			}
			if r.Kind[i] == vsched.KDev && r.Taken[i] != 0 {
				dev++
			}
		}
	}
	resp.Left = stack
	for _, v := range best {
		resp.Viol = append(resp.Viol, *v)
	}
	return resp
}

// WorkerMain serves requests on stdin/stdout (gob).
func WorkerMain() {
	if p := os.Getenv("VERIF_CURFILE"); p != "" {
		f, err := os.OpenFile(p, os.O_CREATE|os.O_RDWR, 0o644)
		if err == nil {
			curFile = f
		}
	}
	// watchdog: an execution in which a thread runs for 90 s without reaching a scheduling point can only be a
	// busy loop without synchronisation (a step between two points normally takes microseconds): the point
	// horizon cannot end it, so the worker ends itself and the master records a livelock for the current prefix
	go func() {
		last, since := int64(-1), time.Now()
		for {
			time.Sleep(5 * time.Second)
			p := vsched.Progress()
			if vsched.Outside() || p != last {
				last, since = p, time.Now()
				continue
			}
			if time.Since(since) > 90*time.Second {
				fmt.Fprintln(os.Stderr, "worker: no scheduling point reached for 90 s; giving up on this execution")
				os.Exit(67)
			}
		}
	}()
	if !vsched.SelfTestChan() {
		fmt.Fprintln(os.Stderr, "worker: hchan header layout self-test failed")
		os.Exit(3)
	}
	dec := gob.NewDecoder(os.Stdin)
	enc := gob.NewEncoder(os.Stdout)
	for {
		var req Req
		if err := dec.Decode(&req); err != nil {
			if err == io.EOF {
				return
			}
			fmt.Fprintln(os.Stderr, "worker: decode:", err)
			os.Exit(3)
		}
		resp := handle(&req)
		if err := enc.Encode(resp); err != nil {
			fmt.Fprintln(os.Stderr, "worker: encode:", err)
			os.Exit(3)
		}
	}
}
