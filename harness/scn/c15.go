package scn

import (
	"context"
	"fmt"

	"github.com/anishathalye/porcupine"
	"github.com/aperturerobotics/util/ccontainer"
	"github.com/aperturerobotics/util/zzverif/vsched"
	"verifharness/eng"
)

const (
	c15Cancel = iota
	c15Sent   // error sent on errCh
	c15Closed // errCh closed
	c15SentNil
)

// waiter kinds
const (
	wValue = iota
	wChange
	wEmpty
	wValid    // validator v >= 2
	wValidEr  // validator: error at v == 1, true at v >= 2
	wValidNil // nil validator: any non-empty value
)

var wLabels = []string{"WaitValue", "WaitValueChange", "WaitValueEmpty", "WaitValueWithValidator", "WaitValueWithValidator(err)", "WaitValueWithValidator(nil)"}

var errValid = fmt.Errorf("validator-error")
var errCh15 = fmt.Errorf("errch-error")

type eqFn func(a, b int) bool

func same(eq eqFn, a, b int) bool { return a == b || (eq != nil && eq(a, b)) }

func cond(kind int, eq eqFn, old, v int) bool {
	switch kind {
	case wValue, wValidNil:
		return !same(eq, 0, v)
	case wChange:
		return !same(eq, old, v)
	case wEmpty:
		return same(eq, 0, v)
	case wValid, wValidEr:
		return v >= 2
	}
	return false
}

// swapTo writes through SwapValue, logging the applied value inside the critical section.
func swapTo(c *ccontainer.CContainer[int], f func(int) int) int {
	return c.SwapValue(func(v int) int {
		n := f(v)
		vsched.Observe(oVal, int64(n), int64(v), 0)
		return n
	})
}

func ccWait(c *ccontainer.CContainer[int], id, kind, old int, eq eqFn, ctx context.Context, errCh <-chan error) {
	vsched.Observe(oCall, int64(id), int64(kind), int64(old))
	label(wLabels[kind])
	var v int
	var err error
	switch kind {
	case wValue:
		v, err = c.WaitValue(ctx, errCh)
	case wChange:
		v, err = c.WaitValueChange(ctx, old, errCh)
	case wEmpty:
		err = c.WaitValueEmpty(ctx, errCh)
	case wValid:
		// (the validator is user code run outside the cell's critical section: it may use the container)
		v, err = c.WaitValueWithValidator(ctx, func(x int) (bool, error) { _ = c.GetValue(); return x >= 2, nil }, errCh)
	case wValidNil:
		v, err = c.WaitValueWithValidator(ctx, nil, errCh)
	case wValidEr:
		v, err = c.WaitValueWithValidator(ctx, func(x int) (bool, error) {
			if x == 1 {
				return false, errValid
			}
			return x >= 2, nil
		}, errCh)
	}
	label("")
	code := int64(0)
	switch {
	case err == nil:
		if kind != wEmpty && !cond(kind, eq, old, v) {
			fail("C15.condition", "%s returned value %d which does not satisfy its wait condition", wLabels[kind], v)
		}
	case err == context.Canceled:
		code = 1
		if vsched.Ctr(c15Cancel) == 0 && vsched.Ctr(c15Closed) == 0 {
			fail("C15.spurious-error", "%s returned context.Canceled but neither was its context cancelled nor its error channel closed", wLabels[kind])
		}
	case err == errCh15:
		code = 2
		if vsched.Ctr(c15Sent) == 0 {
			fail("C15.spurious-error", "%s returned the error-channel error although it was never sent", wLabels[kind])
		}
	case err == errValid:
		code = 3
		if kind != wValidEr {
			fail("C15.spurious-error", "%s returned the validator error of another waiter", wLabels[kind])
		}
	default:
		fail("C15.spurious-error", "%s returned unexpected error %v", wLabels[kind], err)
	}
	if err != nil && v != 0 {
		fail("C15.value-with-error", "%s returned value %d together with error %v", wLabels[kind], v, err)
	}
	vsched.Observe(oRet, int64(id), int64(v), code)
}

// heldPost: a value returned without error by waiter id was held by the cell during the call.
func heldPost(r *vsched.Result) (string, string) {
	cur := int64(0)
	type w struct {
		seen map[int64]bool
		kind int64
	}
	open := map[int64]*w{}
	setBegun := map[int64]bool{}
	for _, o := range r.Obs {
		switch o.Kind {
		case oVal:
			cur = o.A
			for _, x := range open {
				x.seen[cur] = true
			}
		case oOp: // SetValue begin (value may be applied any time from now on)
			setBegun[o.A] = true
		case oCall:
			open[o.A] = &w{seen: map[int64]bool{cur: true}, kind: o.B}
		case oRet:
			x := open[o.A]
			delete(open, o.A)
			if x != nil && o.C == 0 && x.kind != wEmpty && !x.seen[o.B] && !setBegun[o.B] {
				return "C15.value-never-held", fmt.Sprintf("waiter %d returned value %d, which the cell never held during the call", o.A, o.B)
			}
			if x != nil && o.C == 0 && x.kind == wEmpty && !x.seen[0] && !setBegun[0] {
				return "C15.value-never-held", fmt.Sprintf("WaitValueEmpty (waiter %d) returned nil although the cell was never empty during the call", o.A)
			}
		}
	}
	return "", ""
}

// finalWaiters: once quiet, nobody may be parked while the content satisfies its condition.
func finalWaiters(c *ccontainer.CContainer[int], eq eqFn, olds map[int]int) {
	vsched.Settle()
	v := c.GetValue()
	for kind, l := range wLabels {
		if n := vsched.CountParked(l); n > 0 && cond(kind, eq, olds[kind], v) {
			fail("C15.waiter-stuck", "%d waiter(s) parked in %s although the cell holds %d, which satisfies the wait condition", n, l, v)
		}
	}
}

type regIn struct {
	kind int // 0 get 1 set 2 swap+1
	arg  int
}

var registerModel = porcupine.Model{
	Init: func() interface{} { return 0 },
	Step: func(state, input, output interface{}) (bool, interface{}) {
		st, in, out := state.(int), input.(regIn), output.(int)
		switch in.kind {
		case 0:
			return out == st, st
		case 1:
			return true, in.arg
		case 2:
			return out == st+1, st + 1
		}
		return false, st
	},
}

func regPost(r *vsched.Result) (string, string) {
	type pend struct {
		in   regIn
		call int64
		t    int
	}
	open := map[int64]pend{}
	var ops []porcupine.Operation
	desc := ""
	for i, o := range r.Obs {
		switch o.Kind {
		case oCall:
			open[o.A] = pend{regIn{int(o.B), int(o.C)}, int64(i), int(o.T)}
		case oRet:
			p := open[o.A]
			ops = append(ops, porcupine.Operation{ClientId: p.t, Input: p.in, Call: p.call, Output: int(o.B), Return: int64(i)})
			desc += fmt.Sprintf("[t%d %v(%d)->%d @%d-%d] ", p.t, []string{"Get", "Set", "Swap+1"}[p.in.kind], p.in.arg, o.B, p.call, i)
		}
	}
	if !porcupine.CheckOperations(registerModel, ops) {
		return "C15.register-linearizable", "Get/Set/Swap history is not linearizable as a single cell: " + desc
	}
	return "", ""
}

func regOp(c *ccontainer.CContainer[int], id int64, kind, arg int) {
	vsched.Observe(oCall, id, int64(kind), int64(arg))
	out := 0
	switch kind {
	case 0:
		if arg == 1 {
			out = c.SwapValue(nil) // documented: returns the current value without changes
		} else {
			out = c.GetValue()
		}
	case 1:
		c.SetValue(arg)
	case 2:
		out = c.SwapValue(func(v int) int { return v + 1 })
	}
	vsched.Observe(oRet, id, int64(out), 0)
}

func init() {
	bg := context.Background()
	mod2 := func(a, b int) bool { return a%2 == b%2 }
	eng.Register(&eng.Scenario{
		Name: "cc-swap3", Props: []string{"C15"}, MustFinish: true, ObsNames: stdObs,
		Doc:   "CContainer: three SwapValue(+1) threads and a GetValue reader; no update may be lost (final value 3, returned values distinct)",
		Quick: eng.Bounds{PB: 2}, Thorough: eng.Bounds{PB: 4},
		Body: func() {
			c := ccontainer.NewCContainer[int](0)
			for i := 0; i < 3; i++ {
				T("S", func() {
					n := swapTo(c, func(v int) int { return v + 1 })
					if vsched.CtrAdd(10+n, 1) > 1 {
						fail("C15.lost-update", "two SwapValue(+1) calls returned the same value %d", n)
					}
				})
			}
			T("G", func() {
				a := c.GetValue()
				b := c.GetValue()
				if b < a {
					fail("C15.lost-update", "GetValue went backwards: %d then %d", a, b)
				}
			})
			vsched.Settle()
			if v := c.GetValue(); v != 3 {
				fail("C15.lost-update", "final value %d after three SwapValue(+1)", v)
			}
		},
	})
	eng.Register(&eng.Scenario{
		Name: "cc-register", Props: []string{"C15"}, MustFinish: true, ObsNames: stdObs,
		Doc:   "CContainer: 3 threads x 2 operations chosen from {GetValue (SwapValue(nil) on the third thread), SetValue(5), SetValue(7), SwapValue(+1)}; porcupine: linearizable as one register",
		Quick: eng.Bounds{PB: 1}, Thorough: eng.Bounds{PB: 2},
		Body: func() {
			c := ccontainer.NewCContainer[int](0)
			for t := 0; t < 3; t++ {
				t := t
				var ks, as [2]int
				for j := 0; j < 2; j++ {
					switch vsched.Choose(4) {
					case 0:
						ks[j] = 0
						if t == 2 {
							as[j] = 1 // thread 2 reads through SwapValue(nil)
						}
					case 1:
						ks[j], as[j] = 1, 5
					case 2:
						ks[j], as[j] = 1, 7
					case 3:
						ks[j] = 2
					}
				}
				T("U", func() {
					for j := 0; j < 2; j++ {
						regOp(c, int64(t*10+j), ks[j], as[j])
					}
				})
			}
		},
		Post: regPost,
	})
	eng.Register(&eng.Scenario{
		Name: "cc-wait", Props: []string{"C15"}, MustFinish: false, ObsNames: stdObs,
		Doc:   "CContainer: WaitValue and WaitValueChange(0) waiters against writers Swap(->1), Swap(->0) and SetValue(2); returned value must have been held during the call and satisfy the condition; nobody parked at the end while the content satisfies",
		Quick: eng.Bounds{PB: 2}, Thorough: eng.Bounds{PB: 3},
		Body: func() {
			c := ccontainer.NewCContainer[int](0)
			T("W1", func() { ccWait(c, 1, wValue, 0, nil, bg, nil) })
			T("W2", func() { ccWait(c, 2, wChange, 0, nil, bg, nil) })
			T("A", func() { swapTo(c, func(int) int { return 1 }); swapTo(c, func(int) int { return 0 }) })
			T("B", func() { vsched.Observe(oOp, 2, 0, 0); c.SetValue(2) })
			finalWaiters(c, nil, map[int]int{})
		},
		Post: heldPost,
	})
	eng.Register(&eng.Scenario{
		Name: "cc-nilvalidator", Props: []string{"C15"}, ObsNames: stdObs,
		Doc:   "CContainer (plain or custom equality, choice): a WaitValueWithValidator(nil validator) waiter and a WaitValueEmpty waiter against writers Swap(->1), Swap(->0) and SetValue(2)",
		Quick: eng.Bounds{PB: 2}, Thorough: eng.Bounds{PB: 3},
		Body: func() {
			var eq eqFn
			c := ccontainer.NewCContainer[int](0)
			if vsched.Choose(2) == 1 {
				eq = mod2
				c = ccontainer.NewCContainerWithEqual[int](0, mod2)
			}
			T("W1", func() { ccWait(c, 1, wValidNil, 0, eq, bg, nil) })
			T("A", func() { swapTo(c, func(int) int { return 1 }); swapTo(c, func(int) int { return 0 }) })
			T("B", func() { vsched.Observe(oOp, 2, 0, 0); c.SetValue(2) })
			finalWaiters(c, eq, map[int]int{})
		},
		Post: heldPost,
	})
	eng.Register(&eng.Scenario{
		Name: "cc-empty", Props: []string{"C15"}, ObsNames: stdObs,
		Doc:   "CContainer: initial 1; WaitValueEmpty and WaitValueChange(1) waiters; writers Swap(->0), Swap(->3)",
		Quick: eng.Bounds{PB: 2}, Thorough: eng.Bounds{PB: 3},
		Body: func() {
			c := ccontainer.NewCContainer[int](1)
			vsched.Observe(oVal, 1, 0, 0)
			T("W1", func() { ccWait(c, 1, wEmpty, 0, nil, bg, nil) })
			T("W2", func() { ccWait(c, 2, wChange, 1, nil, bg, nil) })
			T("A", func() { swapTo(c, func(int) int { return 0 }) })
			T("B", func() { swapTo(c, func(int) int { return 3 }) })
			finalWaiters(c, nil, map[int]int{wChange: 1})
		},
		Post: heldPost,
	})
	eng.Register(&eng.Scenario{
		Name: "cc-validator", Props: []string{"C15"}, ObsNames: stdObs,
		Doc:   "CContainer: WaitValueWithValidator(v>=2) and a validator failing at v==1, three SwapValue(+1) writers",
		Quick: eng.Bounds{PB: 2}, Thorough: eng.Bounds{PB: 3},
		Body: func() {
			c := ccontainer.NewCContainer[int](0)
			T("W1", func() { ccWait(c, 1, wValid, 0, nil, bg, nil) })
			T("W2", func() { ccWait(c, 2, wValidEr, 0, nil, bg, nil) })
			T("A", func() { swapTo(c, func(v int) int { return v + 1 }); swapTo(c, func(v int) int { return v + 1 }) })
			T("B", func() { swapTo(c, func(v int) int { return v + 1 }) })
			finalWaiters(c, nil, map[int]int{})
		},
		Post: heldPost,
	})
	eng.Register(&eng.Scenario{
		Name: "cc-equal", Props: []string{"C15"}, ObsNames: stdObs,
		Doc:   "CContainer with custom equality (x == y mod 2): WaitValue and WaitValueChange(0); writers SetValue(2) (equal to 0: must not count as a change), Swap(->3), Swap(->4)",
		Quick: eng.Bounds{PB: 2}, Thorough: eng.Bounds{PB: 3},
		Body: func() {
			c := ccontainer.NewCContainerWithEqual[int](0, mod2)
			T("W1", func() { ccWait(c, 1, wValue, 0, mod2, bg, nil) })
			T("W2", func() { ccWait(c, 2, wChange, 0, mod2, bg, nil) })
			T("A", func() { vsched.Observe(oOp, 2, 0, 0); c.SetValue(2) })
			back := vsched.Choose(2) == 1
			T("B", func() {
				c.SwapValue(func(v int) int { vsched.Observe(oVal, 3, 0, 0); return 3 })
				if !back {
					return
				}
				c.SwapValue(func(v int) int {
					if !mod2(v, 4) {
						vsched.Observe(oVal, 4, 0, 0)
					}
					return 4
				})
			})
			finalWaiters(c, mod2, map[int]int{})
		},
		Post: heldPost,
	})
	eng.Register(&eng.Scenario{
		Name: "cc-equal-validator", Props: []string{"C15"}, ObsNames: stdObs,
		Doc:   "CContainer with custom equality (x == y mod 2): a WaitValueWithValidator(v>=2) waiter and a WaitValueChange(0) waiter against SwapValue / SetValue writers producing 2 (equal to 0 under the custom equality), then 3: whatever the cell finally holds, a waiter whose condition it satisfies may not stay parked",
		Quick: eng.Bounds{PB: 2}, Thorough: eng.Bounds{PB: 3},
		Body: func() {
			c := ccontainer.NewCContainerWithEqual[int](0, mod2)
			viaSet := vsched.Choose(2) == 1
			third := vsched.Choose(2) == 1
			T("W1", func() { ccWait(c, 1, wValid, 0, mod2, bg, nil) })
			T("W2", func() { ccWait(c, 2, wChange, 0, mod2, bg, nil) })
			T("A", func() {
				if viaSet {
					vsched.Observe(oOp, 2, 0, 0)
					c.SetValue(2)
				} else {
					vsched.Observe(oOp, 2, 0, 0) // a value equal under the custom equality may or may not be stored
					c.SwapValue(func(int) int { return 2 })
				}
				if third {
					c.SwapValue(func(v int) int { vsched.Observe(oVal, 3, 0, 0); return 3 })
				}
			})
			finalWaiters(c, mod2, map[int]int{})
		},
		Post: heldPost,
	})
	eng.Register(&eng.Scenario{
		Name: "cc-setvalue-race", Props: []string{"C15"}, ObsNames: stdObs,
		Doc:   "CContainer holding 1: S1 = SetValue(1) (equal to the current content)  ||  S2 = SetValue(2)  ||  W = WaitValueChange(old=2)  ||  G = GetValue x2: the cell ends at 1 or 2; if it ends at 1 the waiter (condition: differs from 2) may not stay parked; Get/Set stay linearizable",
		Quick: eng.Bounds{PB: 3}, Thorough: eng.Bounds{PB: 4},
		Body: func() {
			c := ccontainer.NewCContainer[int](1)
			vsched.Observe(oVal, 1, 0, 0)
			T("S1", func() { vsched.Observe(oOp, 1, 0, 0); c.SetValue(1) })
			T("S2", func() { vsched.Observe(oOp, 2, 0, 0); c.SetValue(2) })
			T("W", func() { ccWait(c, 1, wChange, 2, nil, bg, nil) })
			finalWaiters(c, nil, map[int]int{wChange: 2})
			if v := c.GetValue(); v != 1 && v != 2 {
				fail("C15.lost-update", "final value %d after SetValue(1) and SetValue(2)", v)
			}
		},
		Post: heldPost,
	})
	eng.Register(&eng.Scenario{
		Name: "cc-cancel-write", Props: []string{"C15"}, ObsNames: stdObs,
		Doc:   "CContainer holding -1: a waiter WaitValueEmpty or WaitValueWithValidator(v>=2) (choice) with a cancellable context; a writer makes a write that wakes the waiter but does not satisfy its condition (-1 -> -2) while a canceller cancels: the waiter returns context.Canceled or stays parked, never a value",
		Quick: eng.Bounds{PB: 3}, Thorough: eng.Bounds{PB: 4},
		Body: func() {
			kind := []int{wEmpty, wValid, wValidEr}[vsched.Choose(3)]
			c := ccontainer.NewCContainer[int](-1)
			vsched.Observe(oVal, -1, 0, 0)
			ctx, cancel := context.WithCancel(bg)
			if vsched.Choose(2) == 1 {
				// a context cancelled with a cause: the waiter still reports the context's error (ctx.Err()), not the cause
				cctx, ccancel := context.WithCancelCause(bg)
				ctx, cancel = cctx, func() { ccancel(errRoutine) }
			}
			T("W", func() { ccWait(c, 1, kind, 0, nil, ctx, nil) })
			T("A", func() { swapTo(c, func(int) int { return -2 }) })
			T("C", func() { vsched.CtrSet(c15Cancel, 1); cancel() })
			vsched.Settle()
			if n := vsched.CountParked(wLabels[kind]); n > 0 {
				fail("C15.waiter-stuck", "waiter parked in %s although its context was cancelled", wLabels[kind])
			}
		},
		Post: heldPost,
	})
	eng.Register(&eng.Scenario{
		Name: "cc-panic-cb", Props: []string{"C15"}, MustFinish: true, ObsNames: stdObs,
		Doc:   "CContainer: a SwapValue callback panics (its caller recovers) while a WaitValue waiter is parked and another writer sets 2: the cell stays usable - the waiter returns 2, GetValue/SetValue/SwapValue afterwards do not block and see the last write",
		Quick: eng.Bounds{PB: 2}, Thorough: eng.Bounds{PB: 3},
		Body: func() {
			c := ccontainer.NewCContainer[int](0)
			T("W", func() { ccWait(c, 1, wValue, 0, nil, bg, nil) })
			T("P", func() {
				defer func() { recover() }()
				c.SwapValue(func(v int) int { panic("callback failed") })
			})
			T("A", func() { vsched.Observe(oOp, 2, 0, 0); c.SetValue(2) })
			vsched.Settle()
			if n := vsched.CountParked("WaitValue"); n > 0 {
				fail("C15.waiter-stuck", "WaitValue still parked although the cell was set to 2 (a SwapValue callback had panicked)")
				return
			}
			if v := c.GetValue(); v != 2 {
				fail("C15.lost-update", "GetValue() = %d after SetValue(2)", v)
			}
			if v := swapTo(c, func(v int) int { return v + 1 }); v != 3 {
				fail("C15.lost-update", "SwapValue(+1) returned %d, want 3", v)
			}
		},
		Post: heldPost,
	})
	eng.Register(&eng.Scenario{
		Name: "cc-equal-empty", Props: []string{"C15"}, ObsNames: stdObs,
		Doc:   "CContainer with custom equality (x == y mod 2) holding 1: a WaitValueEmpty waiter and a WaitValue waiter; writers SetValue(2) (empty under the cell's equality), Swap(->3), Swap(->4): whatever the cell finally holds, a waiter whose condition it satisfies under the cell's equality may not stay parked",
		Quick: eng.Bounds{PB: 2}, Thorough: eng.Bounds{PB: 3},
		Body: func() {
			c := ccontainer.NewCContainerWithEqual[int](1, mod2)
			vsched.Observe(oVal, 1, 0, 0)
			T("W1", func() { ccWait(c, 1, wEmpty, 0, mod2, bg, nil) })
			T("A", func() { vsched.Observe(oOp, 2, 0, 0); c.SetValue(2) })
			if vsched.Choose(2) == 1 {
				T("B", func() {
					c.SwapValue(func(v int) int { vsched.Observe(oVal, 3, 0, 0); return 3 })
					c.SwapValue(func(v int) int { vsched.Observe(oVal, 4, 0, 0); return 4 })
				})
			}
			finalWaiters(c, mod2, map[int]int{})
		},
	})
	eng.Register(&eng.Scenario{
		Name: "cc-watchchanges", Props: []string{"C15"}, ObsNames: stdObs,
		Doc:   "ccontainer.WatchChanges (built on WaitValueChange) with a callback that takes a step, while a writer sets 1 then 2 (possibly while the callback runs): the watcher never stays blocked while the cell differs from the value it reported last",
		Quick: eng.Bounds{PB: 3}, Thorough: eng.Bounds{PB: 4},
		Body: func() {
			const cLast = 40
			c := ccontainer.NewCContainer[int](0)
			ctx, cancel := context.WithCancel(bg)
			T("W", func() {
				label("WatchChanges")
				ccontainer.WatchChanges[int](ctx, 0, c, func(v int) error {
					vsched.CtrSet(cLast, int64(v))
					vsched.Observe(oCb, int64(v), 0, 0)
					vsched.Point()
					return nil
				}, nil)
				label("")
			})
			T("A", func() { c.SetValue(1); c.SetValue(2) })
			vsched.Settle()
			if v := c.GetValue(); vsched.CountParked("WatchChanges") > 0 && int64(v) != vsched.Ctr(cLast) {
				fail("C15.waiter-stuck", "WatchChanges is blocked although the cell holds %d and the value it reported last is %d", v, vsched.Ctr(cLast))
			}
			vsched.CtrSet(c15Cancel, 1)
			cancel()
			vsched.Settle()
		},
	})
	eng.Register(&eng.Scenario{
		Name: "cc-errch", Props: []string{"C15"}, ObsNames: stdObs,
		Doc:   "CContainer: WaitValue with a cancellable context and an error channel; a sender delivers {error, nil, close} (choice), a canceller cancels, a writer may set the value; the returned error must come from a source that fired",
		Quick: eng.Bounds{PB: 2}, Thorough: eng.Bounds{PB: 3},
		Body: func() {
			c := ccontainer.NewCContainer[int](0)
			ctx, cancel := context.WithCancel(bg)
			errCh := make(chan error, 1)
			what := vsched.Choose(4)
			T("W", func() { ccWait(c, 1, wValue, 0, nil, ctx, errCh) })
			T("S", func() {
				switch what {
				case 0:
					vsched.CtrSet(c15Sent, 1)
					errCh <- errCh15
				case 1:
					errCh <- nil
				case 2:
					vsched.CtrSet(c15Closed, 1)
					close(errCh)
				}
			})
			if vsched.Choose(2) == 1 {
				T("C", func() { vsched.CtrSet(c15Cancel, 1); cancel() })
			}
			if vsched.Choose(2) == 1 {
				T("A", func() { swapTo(c, func(int) int { return 1 }) })
			}
			vsched.Settle()
			v := c.GetValue()
			if n := vsched.CountParked("WaitValue"); n > 0 {
				if v != 0 {
					fail("C15.waiter-stuck", "waiter parked although the cell holds %d", v)
				}
				if vsched.Ctr(c15Cancel) != 0 || vsched.Ctr(c15Sent) != 0 || vsched.Ctr(c15Closed) != 0 {
					fail("C15.waiter-stuck", "waiter parked although its context was cancelled or its error channel fired")
				}
			}
		},
		Post: heldPost,
	})
}
