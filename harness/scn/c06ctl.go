package scn

import (
	"context"
	"fmt"
	"strings"
	"time"

	"github.com/aperturerobotics/util/keyed"
	"github.com/aperturerobotics/util/zzverif/vsched"
	"verifharness/eng"
)

// ---- keyed-history-ctl: the key set under control-plane calls (release delay always configured) ----
//
// reference model of one routine object as far as the key set can tell: a removal is delayed unless the
// object's latest instance has exited with an error *while it was the current instance*; a reset replaces
// the object (and silently drops a pending removal: the timer belongs to the old object); a context
// change detaches the running instance (its late result is not recorded).

type kcObj struct {
	data    int
	gen     int
	pending bool
	running bool
	failed  bool
	success bool
}

type kcTimer struct {
	key string
	gen int
}

type kcModel struct {
	script int
	ctx    int // 0 = none
	ctors  int
	gens   int
	objs   map[string]*kcObj
	timers []kcTimer
}

func (m *kcModel) start(o *kcObj, force bool) {
	if (!force && o.success) || (!force && o.running) {
		return
	}
	o.failed, o.success, o.running = false, false, true
	switch m.script { // (every operation is followed by quiescence: the outcome is known at once)
	case iReturnErr:
		o.running, o.failed = false, true
	case iReturnNil:
		o.running, o.success = false, true
	}
}

func (m *kcModel) newObj() *kcObj {
	m.ctors++
	m.gens++
	return &kcObj{data: m.ctors, gen: m.gens}
}

func (m *kcModel) cancelPending(k string, o *kcObj) {
	if !o.pending {
		return
	}
	o.pending = false
	for i, t := range m.timers {
		if t.key == k && t.gen == o.gen {
			m.timers = append(m.timers[:i:i], m.timers[i+1:]...)
			break
		}
	}
}

func (m *kcModel) setKey(k string, start bool) (int, bool) {
	o, existed := m.objs[k]
	if !existed {
		o = m.newObj()
		m.objs[k] = o
	} else {
		m.cancelPending(k, o)
	}
	if (!existed || start) && m.ctx != 0 {
		m.start(o, false)
	}
	return o.data, existed
}

func (m *kcModel) remove(k string) bool {
	o, existed := m.objs[k]
	if !existed {
		return false
	}
	if o.pending {
		return true
	}
	if o.failed {
		delete(m.objs, k)
		return true
	}
	o.pending = true
	m.timers = append(m.timers, kcTimer{k, o.gen})
	return true
}

func (m *kcModel) reset(k string) (bool, bool) {
	_, existed := m.objs[k]
	if !existed {
		return false, false
	}
	o := m.newObj()
	m.objs[k] = o
	if m.ctx != 0 {
		m.start(o, false)
	}
	return true, true
}

func (m *kcModel) restart(k string) (bool, bool) {
	o, existed := m.objs[k]
	if !existed {
		return false, false
	}
	if m.ctx == 0 {
		return true, false
	}
	m.start(o, true)
	return true, true
}

func (m *kcModel) setContext(ctx int, restart bool) {
	same := ctx == m.ctx
	if same && !restart {
		return
	}
	m.ctx = ctx
	for _, o := range m.objs {
		if same && !o.failed {
			continue
		}
		o.running = false
		if (!o.failed || restart) && ctx != 0 {
			m.start(o, false)
		}
	}
}

func (m *kcModel) fire() {
	if len(m.timers) == 0 {
		return
	}
	t := m.timers[0]
	m.timers = m.timers[1:]
	if o := m.objs[t.key]; o != nil && o.gen == t.gen && o.pending {
		delete(m.objs, t.key)
	}
}

func keyedCtlHistory(depth int) func() {
	return func() {
		bg := context.Background()
		m := &kcModel{script: vsched.Choose(3), objs: map[string]*kcObj{}}
		ctors := 0
		k := keyed.NewKeyed(func(key string) (keyed.Routine, int) {
			ctors++
			return func(ctx context.Context) error {
				vsched.CtrAdd(kActiveA, 1)
				err := scriptRoutine(m.script)(ctx)
				vsched.CtrAdd(kActiveA, -1)
				return err
			}, ctors
		}, keyed.WithReleaseDelay[string, int](time.Second))
		nctx := 0
		fresh := func() context.Context { nctx++; return context.WithValue(bg, ctxKey{}, nctx) }
		var cur context.Context
		if vsched.Choose(2) == 1 {
			cur = fresh()
			k.SetContext(cur, false)
			m.ctx = nctx
		}
		hist := []string{fmt.Sprintf("config{script=%d ctx=%v}", m.script, cur != nil)}
		bad := func(oracle, format string, a ...any) {
			fail(oracle, "%v: %s", hist, fmt.Sprintf(format, a...))
		}
		for step := 0; step < depth; step++ {
			l := vsched.Choose(11)
			vsched.Observe(oOp, int64(l), 0, 0)
			switch l {
			case 0, 1:
				hist = append(hist, fmt.Sprintf("SetKey(a,%v)", l == 1))
				d, ex := k.SetKey("a", l == 1)
				if wd, wex := m.setKey("a", l == 1); d != wd || ex != wex {
					bad("C06.setkey-result", "SetKey returned (%d,%v), reference model (%d,%v)", d, ex, wd, wex)
					return
				}
			case 2:
				hist = append(hist, "RemoveKey(a)")
				if ex, wex := k.RemoveKey("a"), m.remove("a"); ex != wex {
					bad("C06.removekey-result", "RemoveKey returned %v, reference model %v", ex, wex)
					return
				}
			case 3:
				hist = append(hist, "ResetRoutine(a)")
				ex, rs := k.ResetRoutine("a")
				if wex, wrs := m.reset("a"); ex != wex || rs != wrs {
					bad("C06.reset-result", "ResetRoutine returned (%v,%v), reference model (%v,%v)", ex, rs, wex, wrs)
					return
				}
			case 4:
				hist = append(hist, "RestartRoutine(a)")
				ex, rs := k.RestartRoutine("a")
				if wex, wrs := m.restart("a"); ex != wex || rs != wrs {
					bad("C06.reset-result", "RestartRoutine returned (%v,%v), reference model (%v,%v)", ex, rs, wex, wrs)
					return
				}
			case 5:
				hist = append(hist, "ClearContext")
				k.ClearContext()
				cur = nil
				m.setContext(0, false)
			case 6, 7:
				hist = append(hist, fmt.Sprintf("SetContext(fresh,%v)", l == 7))
				cur = fresh()
				k.SetContext(cur, l == 7)
				m.setContext(nctx, l == 7)
			case 8:
				hist = append(hist, "SetContext(same,true)")
				k.SetContext(cur, true)
				m.setContext(m.ctx, true)
			case 9:
				hist = append(hist, "FireTimer")
				if vsched.FireEarliest() {
					m.fire()
				}
			case 10:
				hist = append(hist, "SyncKeys([],false)")
				add, rem := k.SyncKeys(nil, false)
				var wrem []string
				if _, ok := m.objs["a"]; ok {
					wrem = []string{"a"}
					m.remove("a")
				}
				if len(add) != 0 || !eqSet(rem, wrem) {
					bad("C06.synckeys-result", "SyncKeys([]) returned added=%v removed=%v, reference model removed=%v", add, rem, wrem)
					return
				}
			}
			vsched.Settle()
			got := sortedKeys(k.GetKeys())
			var want []string
			if _, ok := m.objs["a"]; ok {
				want = []string{"a"}
			}
			if strings.Join(got, ",") != strings.Join(want, ",") {
				bad("C06.keyset", "GetKeys=%v, reference model=%v", got, want)
				return
			}
			if d, ok := k.GetKey("a"); ok && d != m.objs["a"].data {
				bad("C06.getkey", "GetKey(a)=%d, reference model %d", d, m.objs["a"].data)
				return
			}
			wantRun := int64(0)
			if o := m.objs["a"]; o != nil && o.running {
				wantRun = 1
			}
			if n := vsched.Ctr(kActiveA); n != wantRun {
				bad("C07.running", "%d instance(s) of key a are executing at quiescence, reference model %d", n, wantRun)
				return
			}
		}
		// drain
		for i := 0; i < 8 && vsched.FireEarliest(); i++ {
			m.fire()
			vsched.Settle()
		}
		if got := len(k.GetKeys()); got != len(m.objs) {
			bad("C06.keyset", "after every armed delay expired: %d key(s), reference model %d", got, len(m.objs))
		}
		k.ClearContext()
		vsched.Settle()
	}
}

func init() {
	ops := map[int32]string{oOp: "op"}
	eng.Register(&eng.Scenario{
		Name: "keyed-history-ctl", Props: []string{"C06", "C07"}, QuickOnly: true, MustFinish: true, Det: true, Manual: true, NoRace: true, ObsNames: ops,
		Doc:   "Keyed with a release delay, key a: every sequence of 5 operations over {SetKey(a,start f|t), RemoveKey, ResetRoutine, RestartRoutine, ClearContext, SetContext(fresh,restart f|t), SetContext(same,true), FireEarliestTimer, SyncKeys([])} x context {unset,set} x routine script {blocks, returns nil, returns error}; after every operation the call's results, GetKeys/GetKey and the number of executing instances are compared with a reference model of the routine object (removal is delayed unless the current instance failed; a reset drops a pending removal; a context change detaches the running instance)",
		Quick: eng.Bounds{PB: 0, Cap: 8000000}, Thorough: eng.Bounds{PB: 0},
		Body: keyedCtlHistory(5),
	})
	eng.Register(&eng.Scenario{
		Name: "keyed-history-ctl-deep", Props: []string{"C06", "C07"}, ThoroughOnly: true, Det: true, Manual: true, NoRace: true, ObsNames: ops,
		Doc:   "as keyed-history-ctl with every sequence of 6 operations",
		Quick: eng.Bounds{PB: 0}, Thorough: eng.Bounds{PB: 0, Cap: 60000000},
		Body: keyedCtlHistory(6),
	})
	eng.Register(&eng.Scenario{
		Name: "keyed-synckeys-atomic", Props: []string{"C06"}, ObsNames: stdObs, MustFinish: true,
		Doc:   "Keyed holding {a}: T1 = SyncKeys([b]) || T2 = SyncKeys([a]) or nothing (choice) || T3 = GetKeys twice: SyncKeys replaces the set in one step - an observer sees {a} or {b}, never both or neither, and the final set is the argument of one of the calls",
		Quick: eng.Bounds{PB: 2}, Thorough: eng.Bounds{PB: 3},
		Body: func() {
			k := keyed.NewKeyed(func(key string) (keyed.Routine, int) {
				return scriptRoutine(iUntilCancelled), int(vsched.CtrAdd(kCtors, 1))
			})
			k.SetKey("a", true) // (no context: nothing runs, only the key set is under test)
			two := vsched.Choose(2) == 1
			T("T1", func() { k.SyncKeys([]string{"b"}, false) })
			if two {
				T("T2", func() { k.SyncKeys([]string{"a"}, false) })
			}
			T("T3", func() {
				for i := 0; i < 2; i++ {
					if got := strings.Join(sortedKeys(k.GetKeys()), ","); got != "a" && got != "b" {
						fail("C06.keyset", "GetKeys=[%s] while SyncKeys([b]) replaces {a}: an intermediate set is visible", got)
					}
				}
			})
			vsched.Settle()
			if got := strings.Join(sortedKeys(k.GetKeys()), ","); got != "b" && !(two && got == "a") {
				fail("C06.keyset", "final GetKeys=[%s] after SyncKeys([b]) (and SyncKeys([a]): %v)", got, two)
			}
		},
	})
}
