package scn

import (
	"context"
	"errors"
	"fmt"

	"github.com/aperturerobotics/util/broadcast"
	"github.com/aperturerobotics/util/zzverif/vsched"
	"verifharness/eng"
)

const (
	cX  = iota // guarded state
	cNB        // number of broadcasts so far (counted inside the critical section)
	cCancel
	cHeld // number of channels handed to the observer
	cGen0 // cGen0+i: generation of held channel i
)

var errPred = errors.New("predicate-error")

// bump performs {x++; broadcast()} through the chosen entry point.
func bump(b *broadcast.Broadcast, how int) {
	cb := func(bc func(), _ func() <-chan struct{}) {
		vsched.CtrAdd(cX, 1)
		vsched.CtrAdd(cNB, 1)
		bc()
		vsched.Observe(oOp, vsched.Ctr(cX), 0, 0)
	}
	switch how {
	case 0:
		b.HoldLock(cb)
	case 1:
		if !b.TryHoldLock(cb) {
			b.HoldLock(cb)
		}
	case 2:
		b.HoldLockMaybeAsync(cb)
	}
}

// waiter runs Wait(ctx, x >= k [error at x == errAt]) and checks its result.
func waiter(b *broadcast.Broadcast, ctx context.Context, k, errAt int64, errObj error) {
	lastTrue, calls, errCalls := false, 0, 0
	label("Broadcast.Wait")
	err := b.Wait(ctx, func(bc func(), getWaitCh func() <-chan struct{}) (bool, error) {
		calls++
		if errCalls > 0 {
			fail("C03.error-swallowed", "the predicate returned an error on call %d, yet it is evaluated again (call %d): Wait did not return that error", errCalls, calls)
		}
		x := vsched.Ctr(cX)
		if errAt > 0 && x == errAt {
			lastTrue = false
			errCalls = calls
			return false, errObj
		}
		if errAt < 0 && x >= -errAt {
			// unusual predicate: reports done together with an error: the error must come back unchanged
			lastTrue = false
			return true, errObj
		}
		lastTrue = x >= k
		return lastTrue, nil
	})
	label("")
	vsched.Observe(oRet, k, b2i(err == nil), int64(calls))
	if errCalls > 0 && err != errObj {
		fail("C03.error-swallowed", "the predicate returned its error on call %d but Wait returned %v", errCalls, err)
	}
	if lastTrue && err != nil {
		fail("C03.true-ignored", "the predicate's last evaluation returned true but Wait returned %v", err)
	}
	switch {
	case err == nil:
		if !lastTrue {
			fail("C03.nil-without-true", "Wait returned nil but its last predicate call did not return true (calls=%d)", calls)
		}
	case err == errObj && errObj != nil:
		if lastTrue {
			fail("C03.error-after-true", "Wait returned the predicate error after the predicate returned true")
		}
	case err == context.Canceled:
		if vsched.Ctr(cCancel) == 0 {
			fail("C03.spurious-cancel", "Wait returned context.Canceled although its context was never cancelled")
		}
	default:
		fail("C03.error-changed", "Wait returned %v, which is neither nil, the predicate's error object nor context.Canceled", err)
	}
}

// waitStuck: at quiescence no waiter may be parked while its predicate holds.
func c03Quiescent(ks ...int64) func() bool {
	return func() bool {
		if n := vsched.CountParked("Broadcast.Wait"); n > 0 {
			// every parked waiter in these scenarios waits for x >= some k in ks with a live ctx;
			// the scenario guarantees the final x reaches max(ks) unless cancelled
			x := vsched.Ctr(cX)
			for _, k := range ks {
				if x >= k {
					fail("C03.missed-broadcast", "%d waiter(s) parked in Wait although x=%d satisfies predicate x>=%d", n, x, k)
					return false
				}
			}
		}
		return false
	}
}

func init() {
	bg := context.Background()
	eng.Register(&eng.Scenario{
		Name: "bcast-wait", Props: []string{"C03"}, MustFinish: true, ObsNames: stdObs,
		Doc:   "Broadcast: waiter Wait(x>=2), two bumpers {x++; broadcast()} through HoldLock/TryHoldLock/HoldLockMaybeAsync (choice); a missed wake-up leaves the waiter parked at quiescence",
		Quick: eng.Bounds{PB: 2}, Thorough: eng.Bounds{PB: 3},
		Body: func() {
			var b broadcast.Broadcast
			vsched.OnQuiescent(c03Quiescent(2))
			h1, h2 := vsched.Choose(3), vsched.Choose(3)
			T("W", func() { waiter(&b, bg, 2, 0, nil) })
			T("B1", func() { bump(&b, h1) })
			T("B2", func() { bump(&b, h2) })
		},
	})
	eng.Register(&eng.Scenario{
		Name: "bcast-wait2", Props: []string{"C03"}, MustFinish: true, ObsNames: stdObs,
		Doc:   "Broadcast: two waiters (x>=1, x>=2), one bumper bumping twice, one bumper once",
		Quick: eng.Bounds{PB: 2}, Thorough: eng.Bounds{PB: 3},
		Body: func() {
			var b broadcast.Broadcast
			vsched.OnQuiescent(c03Quiescent(1, 2))
			T("W1", func() { waiter(&b, bg, 1, 0, nil) })
			T("W2", func() { waiter(&b, bg, 2, 0, nil) })
			T("B1", func() { bump(&b, 0); bump(&b, 0) })
			T("B2", func() { bump(&b, 0) })
		},
	})
	eng.Register(&eng.Scenario{
		Name: "bcast-cancel", Props: []string{"C03"}, MustFinish: true, ObsNames: stdObs,
		Doc:   "Broadcast: waiter Wait(x>=2) whose context is cancelled, expires (deadline) or had expired before the call (choice); bumpers reach only x=2 or x=1 (choice), the canceller races with the broadcasts",
		Quick: eng.Bounds{PB: 2}, Thorough: eng.Bounds{PB: 3},
		Body: func() {
			var b broadcast.Broadcast
			// the waiter's context ends by cancellation, by the expiry of a deadline, or had expired before the call
			var ctx context.Context
			var cancel func()
			switch vsched.Choose(3) {
			case 0:
				ctx, cancel = context.WithCancel(bg)
			case 1:
				e := newExpCtx(bg)
				ctx, cancel = e, e.expire
			case 2:
				e := newExpCtx(bg)
				vsched.CtrSet(cCancel, 1)
				e.expire()
				ctx, cancel = e, func() {}
			}
			n := 1 + vsched.Choose(2)
			T("W", func() { waiter(&b, ctx, 2, 0, nil) })
			T("B", func() {
				for i := 0; i < n; i++ {
					bump(&b, 0)
				}
			})
			T("C", func() { vsched.CtrSet(cCancel, 1); cancel() })
		},
	})
	eng.Register(&eng.Scenario{
		Name: "bcast-cancel2", Props: []string{"C03"}, MustFinish: true, ObsNames: stdObs,
		Doc:   "Broadcast: a cancellable waiter W1 (x>=3, never satisfied) and a live waiter W2 (x>=2), a bumper bumping twice and a canceller: a cancellation racing with a broadcast while W2 re-parks on a fresh channel must not make W2 miss the second broadcast",
		Quick: eng.Bounds{PB: 2}, Thorough: eng.Bounds{PB: 3},
		Body: func() {
			var b broadcast.Broadcast
			ctx, cancel := context.WithCancel(bg)
			vsched.OnQuiescent(func() bool {
				// W2 (live context) may not be parked once x>=2; W1 is parked only while uncancelled
				n := vsched.CountParked("Broadcast.Wait")
				x := vsched.Ctr(cX)
				if n > 0 && x >= 2 && (vsched.Ctr(cCancel) != 0 || n > 1) {
					fail("C03.missed-broadcast", "%d waiter(s) parked in Wait at quiescence with x=%d (W2 waits for x>=2; W1 was cancelled=%d)", n, x, vsched.Ctr(cCancel))
				}
				return false
			})
			T("W1", func() { waiter(&b, ctx, 3, 0, nil) })
			T("W2", func() { waiter(&b, bg, 2, 0, nil) })
			T("B", func() { bump(&b, 0); bump(&b, 0) })
			T("C", func() { vsched.CtrSet(cCancel, 1); cancel() })
		},
	})
	errE := errors.New("pred-error")
	eng.Register(&eng.Scenario{
		Name: "bcast-prederr", Props: []string{"C03"}, MustFinish: true, ObsNames: stdObs,
		Doc:   "Broadcast: predicate returns an error object at x==1 and true at x>=2; two bumpers; Wait must return nil or exactly that error object",
		Quick: eng.Bounds{PB: 2}, Thorough: eng.Bounds{PB: 3},
		Body: func() {
			var b broadcast.Broadcast
			// the predicate's error: a plain error, or one that wraps context.Canceled (still the predicate's
			// own error object: it comes back unchanged, the waiter's context is live)
			errE := []error{errE, fmt.Errorf("lookup failed: %w", context.Canceled)}[vsched.Choose(2)]
			ctx := bg
			if vsched.Choose(2) == 1 {
				// the waiter's context is cancelled at any moment: whatever the predicate reported in an
				// evaluation that did take place still is the result
				c, cancel := context.WithCancel(bg)
				ctx = c
				T("C", func() { vsched.CtrSet(cCancel, 1); cancel() })
			}
			T("W", func() { waiter(&b, ctx, 2, 1, errE) })
			T("B1", func() { bump(&b, 0) })
			T("B2", func() { bump(&b, 2) })
		},
	})
	eng.Register(&eng.Scenario{
		Name: "bcast-reuse", Props: []string{"C03"}, MustFinish: true, ObsNames: stdObs,
		Doc:   "Broadcast: one goroutine calls Wait three times in a row on two Broadcasts (predicate error at once; then x>=1 with a bumper; then a predicate that is true at once): each call's result is its own - nothing of an earlier call (its error, its wait channel, its done flag) shows up in a later one",
		Quick: eng.Bounds{PB: 2}, Thorough: eng.Bounds{PB: 3},
		Body: func() {
			var b1, b2 broadcast.Broadcast
			T("W", func() {
				// degenerate arguments are refused with an error (never nil: no predicate has returned true)
				if err := b1.Wait(bg, nil); err == nil {
					fail("C03.nil-without-true", "Wait with a nil predicate returned nil")
				}
				if err := b1.Wait(nil, func(func(), func() <-chan struct{}) (bool, error) { return false, nil }); err == nil { //nolint
					fail("C03.nil-without-true", "Wait with a nil context returned nil although its predicate never returned true")
				}
				if err := b1.Wait(bg, func(func(), func() <-chan struct{}) (bool, error) { return false, errE }); err != errE {
					fail("C03.error-changed", "first Wait: the predicate returned its error at once, Wait returned %v", err)
				}
				waiter(&b2, bg, 1, 0, nil)
				if err := b1.Wait(bg, func(func(), func() <-chan struct{}) (bool, error) { return true, nil }); err != nil {
					fail("C03.true-ignored", "third Wait: the predicate returned true at once, Wait returned %v", err)
				}
			})
			T("B", func() { bump(&b2, 0) })
		},
	})
	eng.Register(&eng.Scenario{
		Name: "bcast-handshake", Props: []string{"C03"}, MustFinish: true, ObsNames: stdObs,
		Doc:   "Broadcast: a predicate may itself change the guarded state and broadcast while reporting 'not yet': W1's predicate, once x>=1, sets y and broadcasts, then waits for z; W2 waits for y, then sets z and broadcasts; a bumper sets x: both waiters must return (a broadcast issued from inside a predicate is a broadcast)",
		Quick: eng.Bounds{PB: 2}, Thorough: eng.Bounds{PB: 3},
		Body: func() {
			var b broadcast.Broadcast
			const cY, cZ = 210, 211
			T("W1", func() {
				label("Broadcast.Wait")
				err := b.Wait(bg, func(bc func(), _ func() <-chan struct{}) (bool, error) {
					if vsched.Ctr(cZ) != 0 {
						return true, nil
					}
					if vsched.Ctr(cX) >= 1 && vsched.Ctr(cY) == 0 {
						vsched.CtrSet(cY, 1)
						bc()
					}
					return false, nil
				})
				label("")
				if err != nil {
					fail("C03.error-changed", "W1: Wait returned %v", err)
				}
			})
			T("W2", func() {
				label("Broadcast.Wait")
				err := b.Wait(bg, func(func(), func() <-chan struct{}) (bool, error) { return vsched.Ctr(cY) != 0, nil })
				label("")
				if err != nil {
					fail("C03.error-changed", "W2: Wait returned %v", err)
				}
				b.HoldLock(func(bc func(), _ func() <-chan struct{}) { vsched.CtrSet(cZ, 1); bc() })
			})
			T("B", func() { bump(&b, 0) })
			vsched.Settle()
			if n := vsched.CountParked("Broadcast.Wait"); n > 0 {
				fail("C03.missed-broadcast", "%d waiter(s) parked although x=%d y=%d z=%d: a broadcast issued by a predicate was lost", n, vsched.Ctr(cX), vsched.Ctr(cY), vsched.Ctr(cZ))
			}
		},
	})
	eng.Register(&eng.Scenario{
		Name: "bcast-prederr-done", Props: []string{"C03"}, MustFinish: true, ObsNames: stdObs,
		Doc:   "Broadcast: the predicate returns (true, error) once x>=1 (on the first call or on a re-check after a broadcast): Wait must return exactly that error object",
		Quick: eng.Bounds{PB: 2}, Thorough: eng.Bounds{PB: 3},
		Body: func() {
			var b broadcast.Broadcast
			T("W", func() { waiter(&b, bg, 5, -1, errE) })
			T("B1", func() { bump(&b, 0) })
		},
	})
	eng.Register(&eng.Scenario{
		Name: "bcast-panic-cb", Props: []string{"C03"}, MustFinish: true, ObsNames: stdObs, PanicsOK: true, NoRace: true,
		Doc:   "Broadcast: a bumper's callback panics after {x++; broadcast()} (the caller recovers), through HoldLock / TryHoldLock / HoldLockMaybeAsync (choice): the lock must be released so that the waiter re-checks and returns, and a later HoldLock works",
		Quick: eng.Bounds{PB: 2}, Thorough: eng.Bounds{PB: 3},
		Body: func() {
			var b broadcast.Broadcast
			vsched.OnQuiescent(c03Quiescent(1))
			how := vsched.Choose(4)
			T("W", func() { waiter(&b, bg, 1, 0, nil) })
			T("B", func() {
				defer func() { recover() }()
				cb := func(bc func(), _ func() <-chan struct{}) {
					vsched.CtrAdd(cX, 1)
					vsched.CtrAdd(cNB, 1)
					bc()
					panic("callback failed after broadcasting")
				}
				switch how {
				case 0:
					b.HoldLock(cb)
				case 3:
					// a nil callback: the call panics inside the section (recovered by the deferred function above)
					// or refuses; either way the lock is not left locked. Then the real section.
					func() {
						defer func() { recover() }()
						b.TryHoldLock(nil)
					}()
					b.HoldLock(cb)
				case 1:
					if !b.TryHoldLock(cb) {
						b.HoldLock(cb)
					}
				case 2:
					// (if the lock is busy the callback runs - and panics - on a goroutine of the
					// library, which no caller can recover: those executions are not judged)
					b.HoldLockMaybeAsync(cb)
				}
			})
			vsched.Settle()
			if !b.TryHoldLock(func(func(), func() <-chan struct{}) {}) {
				fail("C03.lock-leaked", "the Broadcast lock is still held after a callback panicked")
			}
		},
	})
	eng.Register(&eng.Scenario{
		Name: "bcast-generation", Props: []string{"C03"}, MustFinish: true, ObsNames: stdObs,
		Doc:   "Broadcast generation oracle: an observer obtains wait channels in three critical sections (and optionally a Wait predicate obtains one and reports done / an error at once) while two bumpers broadcast (one of them twice); a channel handed out at broadcast count g must be closed iff the count is now > g (closedness read from the channel header) - checked in every later critical section and at the end",
		Quick: eng.Bounds{PB: 2}, Thorough: eng.Bounds{PB: 3},
		Body: func() {
			var b broadcast.Broadcast
			check := func(where string) {
				nb := vsched.Ctr(cNB)
				for i := 0; i < int(vsched.Ctr(cHeld)); i++ {
					ch := vsched.GetCell(i).(<-chan struct{})
					g := vsched.Ctr(cGen0 + i)
					closed := vsched.ChanClosed(ch)
					if closed != (nb > g) {
						fail("C03.generation", "%s: channel handed out at broadcast count %d is closed=%v but the count is now %d", where, g, closed, nb)
					}
				}
			}
			T("O", func() {
				for i := 0; i < 3; i++ {
					b.HoldLock(func(bc func(), getWaitCh func() <-chan struct{}) {
						check("observer section")
						ch := getWaitCh()
						n := int(vsched.Ctr(cHeld))
						vsched.SetCell(n, ch)
						vsched.CtrSet(cGen0+n, vsched.Ctr(cNB))
						vsched.CtrAdd(cHeld, 1)
						vsched.Observe(oVal, int64(n), vsched.Ctr(cNB), 0)
						if ch2 := getWaitCh(); ch2 != ch {
							fail("C03.generation", "two getWaitCh calls in one critical section without a broadcast returned different channels")
						}
					})
				}
			})
			// a Wait whose predicate itself obtains (and keeps) the wait channel and reports done or an
			// error on that very evaluation: the channel belongs to the current generation like any other
			pw := vsched.Choose(3)
			if pw != 0 {
				T("OW", func() {
					b.Wait(bg, func(bc func(), getWaitCh func() <-chan struct{}) (bool, error) {
						check("Wait predicate")
						ch := getWaitCh()
						n := int(vsched.Ctr(cHeld))
						vsched.SetCell(n, ch)
						vsched.CtrSet(cGen0+n, vsched.Ctr(cNB))
						vsched.CtrAdd(cHeld, 1)
						if pw == 1 {
							return true, nil
						}
						return false, errPred
					})
				})
			}
			h := vsched.Choose(3)
			T("B1", func() { bump(&b, 0); bump(&b, h) })
			h2 := vsched.Choose(3)
			secondBc := vsched.Choose(2) == 1
			T("B2", func() {
				cb := func(bc func(), getWaitCh func() <-chan struct{}) {
					// obtain, broadcast, obtain again, broadcast again inside one section; the
					// channels are recorded and judged in later critical sections only (an
					// implementation may close them any time before the section ends)
					check("bumper section (start)")
					hold := func(ch <-chan struct{}) {
						n := int(vsched.Ctr(cHeld))
						vsched.SetCell(n, ch)
						vsched.CtrSet(cGen0+n, vsched.Ctr(cNB))
						vsched.CtrAdd(cHeld, 1)
					}
					hold(getWaitCh())
					vsched.CtrAdd(cNB, 1)
					bc()
					hold(getWaitCh()) // obtained after a broadcast of this very section: a fresh, open channel
					if secondBc {
						vsched.CtrAdd(cNB, 1)
						bc()
					}
				}
				switch h2 {
				case 0:
					b.HoldLock(cb)
				case 1:
					if !b.TryHoldLock(cb) {
						b.HoldLock(cb)
					}
				case 2:
					b.HoldLockMaybeAsync(cb)
				}
			})
			vsched.Settle()
			b.HoldLock(func(bc func(), getWaitCh func() <-chan struct{}) { check("final") })
		},
	})
	eng.Register(&eng.Scenario{
		Name: "bcast-generation-cancel", Props: []string{"C03"}, MustFinish: true, ObsNames: stdObs,
		Doc:   "Broadcast generation oracle with a waiter that gives up: an observer obtains wait channels in three critical sections while a Wait whose predicate never holds is cancelled (or its deadline context expires; choice) and one bumper broadcasts once: a cancelled waiter is not a broadcast - a channel handed out at broadcast count g is closed iff the count is now > g",
		Quick: eng.Bounds{PB: 2}, Thorough: eng.Bounds{PB: 3},
		Body: func() {
			var b broadcast.Broadcast
			check := func(where string) {
				nb := vsched.Ctr(cNB)
				for i := 0; i < int(vsched.Ctr(cHeld)); i++ {
					ch := vsched.GetCell(i).(<-chan struct{})
					g := vsched.Ctr(cGen0 + i)
					if closed := vsched.ChanClosed(ch); closed != (nb > g) {
						fail("C03.generation", "%s: channel handed out at broadcast count %d is closed=%v but the count is now %d", where, g, closed, nb)
					}
				}
			}
			var ctx context.Context
			var giveUp func()
			if vsched.Choose(2) == 0 {
				c, cancel := context.WithCancel(bg)
				ctx, giveUp = c, cancel
			} else {
				c := newExpCtx(bg)
				ctx, giveUp = c, c.expire
			}
			T("O", func() {
				for i := 0; i < 3; i++ {
					b.HoldLock(func(bc func(), getWaitCh func() <-chan struct{}) {
						check("observer section")
						n := int(vsched.Ctr(cHeld))
						vsched.SetCell(n, getWaitCh())
						vsched.CtrSet(cGen0+n, vsched.Ctr(cNB))
						vsched.CtrAdd(cHeld, 1)
					})
				}
			})
			T("W", func() {
				err := b.Wait(ctx, func(func(), func() <-chan struct{}) (bool, error) { return false, nil })
				if err != context.Canceled {
					fail("C03.error-changed", "Wait with a never-true predicate returned %v", err)
				}
			})
			T("C", func() { vsched.CtrSet(cCancel, 1); giveUp() })
			if vsched.Choose(2) == 1 {
				T("B", func() { bump(&b, 0) })
			}
			vsched.Settle()
			b.HoldLock(func(bc func(), getWaitCh func() <-chan struct{}) { check("final") })
		},
	})
}
