package scn

import (
	"fmt"
	"time"

	ubackoff "github.com/aperturerobotics/util/backoff"
	cbackoff "github.com/cenkalti/backoff/v4"
	"verifharness/eng"
)

// manualClock is the cenkalti backoff Clock of the configuration enumerator: it only moves
// when the enumerator moves it (no wall clock anywhere).
type manualClock struct{ now time.Time }

func (c *manualClock) Now() time.Time { return c.now }

func init() {
	eng.Register(&eng.Scenario{
		Name: "backoff-construct", Props: []string{"C14", "C07"}, NoRace: true,
		Doc: "backoff.Backoff.Construct (what WithRetry installs): for every configuration over kind {unset, exponential, constant} x initial interval {unset, 50ms} x max interval {unset, 1s} x multiplier {unset, 2} x max elapsed time {unset, 10min} x constant interval {unset, 200ms}, the constructed back-off is driven for 60 consecutive failures on a manual clock advancing 1 minute per failure (1 hour of uninterrupted failure): a retry interval is produced after each failure (never Stop) unless a maximum elapsed time was configured, in which case Stop appears only once that time has passed; intervals are positive and bounded by the configured maximum",
		Direct: func(rep *eng.DirectReport, shard, nshards int, thorough bool) {
			if shard != 0 {
				return
			}
			steps := 60
			if thorough {
				steps = 600
			}
			for kind := 0; kind < 3; kind++ {
				for mask := 0; mask < 32; mask++ {
					rep.Cases++
					conf := &ubackoff.Backoff{BackoffKind: []ubackoff.BackoffKind{ubackoff.BackoffKind_BackoffKind_UNKNOWN, ubackoff.BackoffKind_BackoffKind_EXPONENTIAL, ubackoff.BackoffKind_BackoffKind_CONSTANT}[kind]}
					ex := &ubackoff.Exponential{}
					if mask&1 != 0 {
						ex.InitialInterval = 50
					}
					if mask&2 != 0 {
						ex.MaxInterval = 1000
					}
					if mask&4 != 0 {
						ex.Multiplier = 2
					}
					maxElapsed := time.Duration(0)
					if mask&8 != 0 {
						ex.MaxElapsedTime = 600000
						maxElapsed = 10 * time.Minute
					}
					if mask&3 != 0 || mask&12 != 0 {
						conf.Exponential = ex
					}
					if mask&16 != 0 {
						conf.Constant = &ubackoff.Constant{Interval: 200}
					}
					in := fmt.Sprintf("kind=%d exponential=%+v constant=%+v", kind, conf.Exponential, conf.Constant)
					bo := conf.Construct()
					clk := &manualClock{now: time.Unix(1_000_000, 0)}
					if e, ok := bo.(*cbackoff.ExponentialBackOff); ok {
						e.Clock = clk
						e.Reset()
					}
					expo := kind != 2
					start := clk.now
					stopped := false
					for i := 0; i < steps; i++ {
						clk.now = clk.now.Add(time.Minute)
						d := bo.NextBackOff()
						if d == cbackoff.Stop {
							stopped = true
							if !(expo && maxElapsed != 0 && clk.now.Sub(start)+time.Minute > maxElapsed) { // (stopping up to one retry interval early is the documented behaviour of the back-off)
								rep.Fail("backoff-stops", fmt.Sprintf("the constructed back-off stops retrying after %d consecutive failures (%v of failure) although no maximum elapsed time allows that", i+1, clk.now.Sub(start)), in)
							}
							break
						}
						if d <= 0 {
							rep.Fail("backoff-interval", fmt.Sprintf("failure %d: retry interval %v", i+1, d), in)
							break
						}
						if expo && conf.Exponential.GetMaxInterval() != 0 && d > time.Duration(conf.Exponential.GetMaxInterval())*time.Millisecond {
							rep.Fail("backoff-interval", fmt.Sprintf("failure %d: retry interval %v exceeds the configured maximum", i+1, d), in)
							break
						}
						if !expo && d != map[bool]time.Duration{true: 200 * time.Millisecond, false: 5 * time.Second}[mask&16 != 0] {
							rep.Fail("backoff-interval", fmt.Sprintf("constant back-off: failure %d: retry interval %v", i+1, d), in)
							break
						}
					}
					if expo && maxElapsed != 0 && !stopped {
						rep.Class("max-elapsed-configured-not-stopped") // permitted: "might be ignored"
					}
					if stopped {
						rep.Class("stops-after-configured-max-elapsed")
					} else {
						rep.Class("retries-forever")
						rep.Nontrivial++
					}
					if rep.Cases%17 == 1 {
						rep.Sample(in)
					}
				}
			}
		},
	})
}
