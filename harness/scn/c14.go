package scn

import (
	"context"
	"fmt"
	"time"

	"github.com/aperturerobotics/util/routine"
	"github.com/aperturerobotics/util/zzverif/vsched"
	"verifharness/eng"
)

// ---- C14: exit status, restart rules and back-off as a reference machine ----

const (
	mEntered = iota // routine entries so far
	mBoNext         // NextBackOff calls
	mBoReset        // Reset calls
	mCbCalls        // exit callback invocations
	mOut0    = 20   // +id: scripted outcome of instance id (0 pending, 1 nil, 2 error)
	mLeft0   = 60   // +id: instance id returned
	mCb0     = 100  // +n: n-th exit callback invocation: 10*cbIndex + errcode
)

// errM wraps context.Canceled: it is the routine's own failure all the same (the instance's context is live when it returns it)
var errM = fmt.Errorf("machine-routine-error: %w", context.Canceled)

func mErrCode(err error) int64 {
	switch err {
	case nil:
		return 0
	case errM:
		return 1
	case context.Canceled:
		return 2
	}
	return 9
}

// machineInstance: runs until cancelled or until the harness lets it exit with a scripted outcome.
func machineInstance(ctx context.Context) error {
	done := ctx.Done()
	id := int(vsched.CtrAdd(mEntered, 1)) - 1
	if id >= 20 {
		fail("infra.too-many-instances", "more than 20 instances")
		return nil
	}
	gate := make(chan struct{})
	vsched.SetCell(id, done)
	vsched.SetCell(20+id, gate)
	vsched.Observe(oEnter, int64(id), 0, 0)
	var err error
	select {
	case <-done:
		err = context.Canceled
	case <-gate:
		if vsched.Ctr(mOut0+id) == 2 {
			err = errM
		}
	}
	vsched.CtrSet(mLeft0+id, 1)
	vsched.Observe(oExit, int64(id), mErrCode(err), 0)
	return err
}

type mBackoff struct {
	stopAfter int
	zero      bool // every interval is 0: retry at once (still a retry, not "give up")
}

func (b *mBackoff) NextBackOff() time.Duration {
	n := int(vsched.CtrAdd(mBoNext, 1))
	vsched.Observe(oVal, 1, int64(n), 0)
	if b.stopAfter > 0 && n > b.stopAfter {
		return -1 // backoff.Stop
	}
	if b.zero {
		return 0
	}
	return time.Second
}

func (b *mBackoff) Reset() {
	vsched.CtrAdd(mBoReset, 1)
	vsched.Observe(oVal, 0, 0, 0)
}

// reference machine
const (
	sIdle = iota
	sRunning
	sOK
	sErr
)

type machine struct {
	ctx        int // 0 = nil, else tag
	hasRoutine bool
	st         int
	bo         int // 0 none, 1 constant, 2 stop after the first interval, 3 constant zero interval
	armed      bool
	loose      bool // the statement does not say whether a retry is still pending: accept either
	nextCalls  int
}

// letters
const (
	aSetRoutine = iota
	aCtxSameF
	aCtxSameT
	aCtxFreshF
	aCtxFreshT
	aClear
	aRestart
	aExitNil
	aExitErr
	aFire
	aProbeF
	aProbeT
	aSetRoutineNil
	aState1
	aState2
	aState0
)

var aNames = []string{"SetRoutine(new)", "SetContext(same,false)", "SetContext(same,true)", "SetContext(fresh,false)", "SetContext(fresh,true)", "ClearContext", "RestartRoutine", "ExitCurrent(nil)", "ExitCurrent(E)", "FireRetryTimers", "WaitExited(returnIfNotRunning=false)", "WaitExited(returnIfNotRunning=true)", "SetRoutine(nil)", "SetState(1)", "SetState(2)", "SetState(0)"}

type machineAPI struct {
	setRoutine func(r routine.Routine)
	setState   func(s int)
	setContext func(ctx context.Context, restart bool) bool
	restart    func() bool
	waitExited func(ctx context.Context, returnIfNotRunning bool, errCh <-chan error) error
}

func machineBody(depth int, alphabet []int, stateVariant bool) func() {
	return func() {
		bg := context.Background()
		m := &machine{bo: vsched.Choose(4)}
		opts := []routine.Option{
			routine.WithExitCb(func(err error) { n := int(vsched.CtrAdd(mCbCalls, 1)) - 1; vsched.CtrSet(mCb0+n, 10*0+mErrCode(err)) }),
			routine.WithExitCb(func(err error) { n := int(vsched.CtrAdd(mCbCalls, 1)) - 1; vsched.CtrSet(mCb0+n, 10*1+mErrCode(err)) }),
		}
		switch m.bo {
		case 1:
			opts = append(opts, routine.WithBackoff(&mBackoff{}))
		case 2:
			opts = append(opts, routine.WithBackoff(&mBackoff{stopAfter: 1}))
		case 3:
			opts = append(opts, routine.WithBackoff(&mBackoff{zero: true}))
		}
		var api machineAPI
		state := 0
		if stateVariant {
			k := routine.NewStateRoutineContainer[int](func(a, b int) bool { return a == b }, opts...)
			k.SetStateRoutine(func(ctx context.Context, st int) error { return machineInstance(ctx) })
			api = machineAPI{setState: func(s int) { k.SetState(s) }, setContext: k.SetContext, restart: k.RestartRoutine, waitExited: k.WaitExited}
		} else {
			k := routine.NewRoutineContainer(opts...)
			api = machineAPI{setRoutine: func(r routine.Routine) { k.SetRoutine(r) }, setContext: k.SetContext, restart: k.RestartRoutine, waitExited: k.WaitExited}
		}
		var cur context.Context
		probeCtx, probeCancel := context.WithCancel(bg)
		probeCancel()
		hist := []string{fmt.Sprintf("config{backoff=%d}", m.bo)}
		bad := func(oracle, format string, a ...any) {
			fail(oracle, "%v: %s", hist, fmt.Sprintf(format, a...))
		}
		// currentInstance: the latest entered instance that is still inside the function with a live context
		currentInstance := func() int {
			n := int(vsched.Ctr(mEntered))
			for id := n - 1; id >= 0; id-- {
				if vsched.Ctr(mLeft0+id) == 0 && !vsched.ChanClosed(vsched.GetCell(id).(<-chan struct{})) {
					return id
				}
			}
			return -1
		}
		for step := 0; step < depth; step++ {
			l := alphabet[vsched.Choose(len(alphabet))]
			hist = append(hist, aNames[l])
			vsched.Observe(oOp, int64(l), 0, 0)
			entries0, cbs0 := int(vsched.Ctr(mEntered)), int(vsched.Ctr(mCbCalls))
			next0, reset0 := int(vsched.Ctr(mBoNext)), int(vsched.Ctr(mBoReset))
			// expectation for this letter
			expEntry := 0 // new entries required
			entryEither := false
			expExit := -1 // error code of the exit of the current instance that must be reported (-1: none)
			wasRunning := m.st == sRunning
			startNew := func() {
				if m.ctx != 0 && m.hasRoutine {
					m.st = sRunning
					expEntry = 1
				} else {
					m.st = sIdle
				}
			}
			switch l {
			case aSetRoutine:
				m.hasRoutine, m.armed, m.loose = true, false, false
				api.setRoutine(machineInstance)
				startNew()
			case aSetRoutineNil:
				m.hasRoutine, m.armed, m.loose = false, false, false
				m.st = sIdle
				api.setRoutine(nil)
			case aState1, aState2, aState0:
				s := []int{1, 2, 0}[l-aState1]
				api.setState(s)
				if s != state {
					state = s
					m.hasRoutine, m.armed, m.loose = s != 0, false, false
					if s != 0 {
						startNew()
					} else {
						m.st = sIdle
					}
				}
			case aCtxSameF:
				if cur != nil {
					api.setContext(cur, false)
				}
			case aCtxSameT:
				if cur != nil {
					api.setContext(cur, true)
					if m.hasRoutine && m.st == sErr {
						m.armed, m.loose = false, false
						startNew()
					}
				}
			case aCtxFreshF, aCtxFreshT:
				cur = context.WithValue(bg, ctxKey{}, step+1)
				m.ctx = step + 1
				api.setContext(cur, l == aCtxFreshT)
				if m.hasRoutine {
					switch m.st {
					case sRunning, sIdle:
						startNew()
					case sErr:
						if l == aCtxFreshT {
							m.armed, m.loose = false, false
							startNew()
						}
						// restart=false: an errored routine is not restarted by the context change
						// itself; a configured retry must still happen (m.armed stays as it is)
					}
				}
			case aClear:
				cur, m.ctx = nil, 0
				api.setContext(nil, false)
				if m.st == sRunning {
					m.st = sIdle
				}
				if m.armed {
					// no context: the retry cannot run now; whether it is still pending once a
					// context is set again is not stated: accept either
					m.armed, m.loose = false, true
				}
			case aRestart:
				r := api.restart()
				want := m.hasRoutine && m.ctx != 0
				if r != want {
					bad("C14.restart-result", "RestartRoutine returned %v, reference machine %v", r, want)
					return
				}
				if want {
					m.armed, m.loose = false, false
					startNew()
				}
			case aExitNil, aExitErr:
				if id := currentInstance(); id >= 0 {
					if !wasRunning {
						bad("C14.unexpected-instance", "an instance with a live context is executing although the reference machine has no running routine")
						return
					}
					vsched.CtrSet(mOut0+id, int64(1+l-aExitNil))
					close(vsched.GetCell(20 + id).(chan struct{}))
					if l == aExitNil {
						m.st, expExit = sOK, 0
					} else {
						m.st, expExit = sErr, 1
						if m.bo != 0 {
							m.nextCalls++
							m.armed = !(m.bo == 2 && m.nextCalls > 1)
						}
					}
				} else if wasRunning {
					bad("C14.instance-missing", "the reference machine has a running routine but no instance with a live context is executing")
					return
				}
			case aFire:
				fired := false
				for i := 0; i < 4 && vsched.FireEarliest(); i++ {
					fired = true
					vsched.Settle()
				}
				switch {
				case m.armed && m.st == sErr && m.ctx != 0 && m.hasRoutine:
					if !fired {
						bad("C14.retry-lost", "the routine returned an error, retry is configured and the context stayed set, but no retry timer is armed")
						return
					}
					m.armed = false
					startNew()
				case m.loose && m.st == sErr && m.ctx != 0 && m.hasRoutine:
					entryEither = true
				}
			case aProbeF, aProbeT:
				err := api.waitExited(probeCtx, l == aProbeT, nil)
				var want error = context.Canceled // the probe's own (pre-cancelled) context
				switch {
				case m.hasRoutine && m.ctx != 0 && m.st == sOK:
					want = nil
				case m.hasRoutine && m.ctx != 0 && m.st == sErr:
					want = errM
				case l == aProbeT && !(m.hasRoutine && m.ctx != 0):
					want = nil
				}
				if err != want {
					bad("C14.waitexited", "WaitExited returned %v, reference machine %v (status %d)", err, want, m.st)
					return
				}
			}
			vsched.Settle()
			// ---- compare ----
			dEntries := int(vsched.Ctr(mEntered)) - entries0
			if entryEither {
				if dEntries > 1 {
					bad("C14.extra-run", "%d new routine entries", dEntries)
					return
				}
				if dEntries == 1 {
					m.st, m.loose = sRunning, false
				}
			} else if dEntries != expEntry {
				oracle := "C14.extra-run"
				if dEntries < expEntry {
					oracle = "C14.missing-run"
				}
				bad(oracle, "%d new routine entries after this call, reference machine expects %d (status before: running=%v, machine now %+v)", dEntries, expEntry, wasRunning, *m)
				return
			}
			running := currentInstance() >= 0
			if running != (m.st == sRunning) {
				bad("C14.status", "an instance with a live context is executing: %v, reference machine status %d", running, m.st)
				if running {
					bad("C05.live-without-reason", "an instance with a live context is executing although the reference machine has no running instance (status %d: no context, no routine or exited)", m.st)
				}
				return
			}
			// exit callbacks: the current instance's exit is reported once to each callback
			var got [2][3]int
			for n := cbs0; n < int(vsched.Ctr(mCbCalls)) && n < 60; n++ {
				v := int(vsched.Ctr(mCb0 + n))
				if v%10 > 2 {
					bad("C14.exit-callback", "exit callback reported an unknown error")
					return
				}
				got[v/10][v%10]++
			}
			for cb := 0; cb < 2; cb++ {
				for code := 0; code < 2; code++ {
					want := 0
					if expExit == code {
						want = 1
					}
					if got[cb][code] != want {
						bad("C14.exit-callback", "exit callback %d was called %d times with error code %d, reference machine expects %d", cb, got[cb][code], code, want)
						return
					}
				}
				// reports of context.Canceled for superseded instances are not constrained
			}
			// back-off bookkeeping
			dNext, dReset := int(vsched.Ctr(mBoNext))-next0, int(vsched.Ctr(mBoReset))-reset0
			if m.bo != 0 {
				if expExit == 0 && dReset < 1 {
					bad("C14.backoff-reset", "the routine returned nil but the back-off was not reset")
					return
				}
				if expExit != 0 && dReset != 0 {
					bad("C14.backoff-reset", "the back-off was reset %d time(s) in a step in which no instance returned nil (it is reset by a success, not by a retry or a restart: otherwise it never grows)", dReset)
					return
				}
				if expExit == 1 && dNext != 1 {
					bad("C14.backoff-next", "the routine returned an error: NextBackOff called %d times, want 1", dNext)
					return
				}
				if expExit != 1 && dNext != 0 && !(l == aRestart || l == aCtxFreshF || l == aCtxFreshT || l == aSetRoutine) {
					bad("C14.backoff-next", "NextBackOff called %d times although no current instance returned an error", dNext)
					return
				}
			}
		}
		api.setContext(nil, false)
	}
}

func init() {
	base := []int{aSetRoutine, aCtxSameF, aCtxSameT, aCtxFreshF, aCtxFreshT, aClear, aRestart, aExitNil, aExitErr, aFire, aProbeF, aProbeT}
	ops := map[int32]string{oOp: "letter", oEnter: "enter", oExit: "exit", oVal: "backoff"}
	eng.Register(&eng.Scenario{
		Name: "routine-machine", Props: []string{"C14", "C05"}, QuickOnly: true, Det: true, Manual: true, NoRace: true, ObsNames: ops,
		Doc:   "RoutineContainer: every sequence of 5 operations over {SetRoutine(new), SetContext(same|fresh, restart f|t), ClearContext, RestartRoutine, ExitCurrent(nil|E), FireRetryTimers, WaitExited probes} x {no back-off, constant, stop after one interval, constant zero interval}; entries, running status, exit callbacks, WaitExited results and back-off calls compared with a reference machine after every operation",
		Quick: eng.Bounds{PB: 0, Cap: 8000000}, Thorough: eng.Bounds{PB: 0},
		Body: machineBody(5, base, false),
	})
	eng.Register(&eng.Scenario{
		Name: "routine-machine-deep", Props: []string{"C14", "C05"}, ThoroughOnly: true, Det: true, Manual: true, NoRace: true, ObsNames: ops,
		Doc:   "RoutineContainer: as routine-machine with sequences of 7 operations plus SetRoutine(nil)",
		Quick: eng.Bounds{PB: 0}, Thorough: eng.Bounds{PB: 0, Cap: 400000000},
		Body: machineBody(7, append(append([]int{}, base...), aSetRoutineNil), false),
	})
	stateAlpha := []int{aState1, aState2, aState0, aCtxSameT, aCtxFreshF, aCtxFreshT, aClear, aRestart, aExitNil, aExitErr, aFire, aProbeF}
	eng.Register(&eng.Scenario{
		Name: "sroutine-machine", Props: []string{"C14", "C05"}, Det: true, Manual: true, NoRace: true, ObsNames: ops,
		Doc:   "StateRoutineContainer: every sequence of 5 (quick) operations over {SetState(1|2|0), SetContext, ClearContext, RestartRoutine, ExitCurrent(nil|E), FireRetryTimers, WaitExited probe} x back-off configurations against the same reference machine",
		Quick: eng.Bounds{PB: 0, Cap: 8000000}, Thorough: eng.Bounds{PB: 0, Cap: 8000000},
		Body: machineBody(5, stateAlpha, true),
	})
}
