package scn

import (
	"context"
	"errors"
	"fmt"

	"github.com/aperturerobotics/util/memo"
	"github.com/aperturerobotics/util/promise"
	"github.com/aperturerobotics/util/zzverif/vsched"
	"verifharness/eng"
)

const (
	c16Calls = iota
	c16Active
	c16Success // value of the successful call (0 = none yet)
	c16Cancel
	c16Begun0 // +i: c16Success as seen when caller i began
)

var errOnce = errors.New("once-error")

// scripts: outcome per call index (true = success)
var onceScripts = [][]bool{{true}, {false, true}, {false, false, true}}

func onceBody(ncallers int, withCancel, ctxAware bool) func() {
	return func() {
		bg := context.Background()
		script := onceScripts[vsched.Choose(len(onceScripts))]
		slow := vsched.Choose(2) == 1
		wrapCancel := ctxAware && vsched.Choose(2) == 1
		once := promise.NewOnce(func(ctx context.Context) (int, error) {
			n := int(vsched.CtrAdd(c16Calls, 1))
			if vsched.Ctr(c16Success) != 0 {
				fail("C16.called-after-success", "function called again (call %d) after it had returned without error", n)
			}
			if vsched.CtrAdd(c16Active, 1) > 1 {
				fail("C16.overlap", "function running twice at the same time (call %d)", n)
			}
			vsched.Observe(oEnter, int64(n), 0, 0)
			if slow {
				vsched.Point()
				vsched.Point()
			}
			ok := n > len(script) || script[n-1]
			vsched.CtrAdd(c16Active, -1)
			if ctxAware && ctx.Err() != nil {
				vsched.Observe(oExit, int64(n), 2, 0)
				if wrapCancel {
					// the function reports the abort in its own words (an error wrapping the context's error)
					return 0, fmt.Errorf("fetch aborted: %w", context.Canceled)
				}
				return 0, context.Canceled
			}
			if ok {
				vsched.CtrSet(c16Success, int64(n*10))
				vsched.Observe(oExit, int64(n), 1, 0)
				return n * 10, nil
			}
			vsched.Observe(oExit, int64(n), 0, 0)
			return 0, errOnce
		})
		caller := func(i int, ctx context.Context, cancellable bool) {
			begun := vsched.Ctr(c16Success)
			label("Once.Resolve")
			v, err := once.Resolve(ctx)
			label("")
			vsched.Observe(oRet, int64(i), int64(v), b2i(err != nil))
			switch {
			case err == nil:
				if int64(v) != vsched.Ctr(c16Success) || v == 0 {
					fail("C16.wrong-value", "Resolve returned (%d,nil) but the successful call returned %d", v, vsched.Ctr(c16Success))
				}
			case err == errOnce:
				if begun != 0 {
					fail("C16.error-after-success", "Resolve that began after the function had succeeded returned the old error")
				}
				if v != 0 {
					fail("C16.wrong-value", "Resolve returned value %d together with an error", v)
				}
			case err == context.Canceled:
				if !cancellable || vsched.Ctr(c16Cancel) == 0 {
					fail("C16.spurious-cancel", "Resolve returned context.Canceled to a caller whose context is live")
				}
			default:
				fail("C16.wrong-error", "Resolve returned %v", err)
			}
		}
		first := 0
		if withCancel {
			// the first caller's context is cancelled, or expires (deadline): both read "cancelled" to Resolve
			var ctx context.Context
			var cancel func()
			if vsched.Choose(2) == 0 {
				ctx, cancel = context.WithCancel(bg)
			} else {
				e := newExpCtx(bg)
				ctx, cancel = e, e.expire
			}
			T("R0", func() { caller(0, ctx, true) })
			T("C", func() { vsched.CtrSet(c16Cancel, 1); cancel() })
			first = 1
		}
		for i := first; i < ncallers; i++ {
			i := i
			T("R", func() { caller(i, bg, false) })
		}
		vsched.Settle()
		if n := vsched.CountParked("Once.Resolve"); n > 0 {
			fail("C16.stuck", "%d Resolve caller(s) never returned", n)
			return
		}
		// late callers: retry until success, then the value is frozen
		for k := 0; k < 4 && vsched.Ctr(c16Success) == 0; k++ {
			before := vsched.Ctr(c16Calls)
			_, err := once.Resolve(bg)
			if err != nil && vsched.Ctr(c16Calls) == before {
				fail("C16.no-retry", "Resolve after a failure returned %v without calling the function again", err)
			}
		}
		calls := vsched.Ctr(c16Calls)
		v, err := once.Resolve(bg)
		if err != nil || int64(v) != vsched.Ctr(c16Success) || vsched.Ctr(c16Calls) != calls {
			fail("C16.not-memoized", "late Resolve returned (%d,%v), calls %d -> %d, successful value %d", v, err, calls, vsched.Ctr(c16Calls), vsched.Ctr(c16Success))
		}
	}
}

func init() {
	eng.Register(&eng.Scenario{
		Name: "once-3", Props: []string{"C16"}, MustFinish: true, ObsNames: stdObs,
		Doc:   "promise.Once: 3 concurrent Resolve callers, function outcome script chosen from [ok],[err,ok],[err,err,ok], fast or slow function; late callers afterwards",
		Quick: eng.Bounds{PB: 1}, Thorough: eng.Bounds{PB: 2},
		Body: onceBody(3, false, false),
	})
	eng.Register(&eng.Scenario{
		Name: "once-cancel", Props: []string{"C16"}, MustFinish: true, ObsNames: stdObs,
		Doc:   "promise.Once: a cancellable caller + canceller and a live caller; scripts as in once-3",
		Quick: eng.Bounds{PB: 2}, Thorough: eng.Bounds{PB: 3},
		Body: onceBody(2, true, false),
	})
	eng.Register(&eng.Scenario{
		Name: "once-ctxaware", Props: []string{"C16"}, MustFinish: true, ObsNames: stdObs,
		Doc:   "promise.Once: 2 callers + canceller, the function honours its context (returns Canceled, or an error of its own wrapping it, when the starter's context is cancelled)",
		Quick: eng.Bounds{PB: 3, Delay: true}, Thorough: eng.Bounds{PB: 4, Delay: true},
		Body: onceBody(2, true, true),
	})
	eng.Register(&eng.Scenario{
		Name: "once-wrapped-cancel", Props: []string{"C16"}, MustFinish: true, ObsNames: stdObs,
		Doc:   "promise.Once whose function fails, under live contexts, with an error that wraps context.Canceled (a sub-operation of its own was cancelled): that is the function's failure like any other - the two concurrent callers get that very error from the attempt they joined (the function is not silently called again on their behalf: at most one call per caller), a later caller starts a new attempt",
		Quick: eng.Bounds{PB: 2}, Thorough: eng.Bounds{PB: 3},
		Body: func() {
			bg := context.Background()
			wrapped := fmt.Errorf("fetch upstream: %w", context.Canceled)
			once := promise.NewOnce(func(ctx context.Context) (int, error) {
				n := int(vsched.CtrAdd(c16Calls, 1))
				if n > 3 {
					fail("C16.extra-call", "the function failed with its own error under live caller contexts, but it has been called %d times for 3 callers", n)
				}
				vsched.Point()
				return 0, wrapped
			})
			check := func() {
				label("Once.Resolve")
				v, err := once.Resolve(bg)
				label("")
				if err != wrapped || v != 0 {
					fail("C16.wrong-error", "Resolve returned (%d,%v), the attempt failed with %v", v, err, wrapped)
				}
			}
			T("A", check)
			T("B", check)
			vsched.Settle()
			check()
		},
	})
	eng.Register(&eng.Scenario{
		Name: "once-zero", Props: []string{"C16"}, MustFinish: true, ObsNames: stdObs,
		Doc:   "promise.Once whose function succeeds with the zero value (0, nil) - after an optional first failure (choice): two concurrent callers and two later ones; the function is not called again after the success and everybody gets (0, nil)",
		Quick: eng.Bounds{PB: 2}, Thorough: eng.Bounds{PB: 3},
		Body: func() {
			bg := context.Background()
			failFirst := vsched.Choose(2) == 1
			once := promise.NewOnce(func(ctx context.Context) (int, error) {
				n := int(vsched.CtrAdd(c16Calls, 1))
				if vsched.Ctr(c16Success) != 0 {
					fail("C16.called-after-success", "function called again (call %d) after it had returned (0, nil)", n)
				}
				if vsched.CtrAdd(c16Active, 1) > 1 {
					fail("C16.overlap", "function running twice at the same time (call %d)", n)
				}
				vsched.Point()
				vsched.CtrAdd(c16Active, -1)
				if failFirst && n == 1 {
					return 0, errOnce
				}
				vsched.CtrSet(c16Success, 1)
				return 0, nil
			})
			for i := 0; i < 2; i++ {
				T("R", func() {
					label("Once.Resolve")
					v, err := once.Resolve(bg)
					label("")
					if v != 0 || (err != nil && err != errOnce) {
						fail("C16.wrong-value", "Resolve returned (%d,%v)", v, err)
					}
				})
			}
			vsched.Settle()
			for k := 0; k < 3; k++ {
				v, err := once.Resolve(bg)
				if v != 0 || (err != nil && (err != errOnce || vsched.Ctr(c16Success) != 0)) {
					fail("C16.wrong-value", "late Resolve returned (%d,%v)", v, err)
				}
			}
			if vsched.Ctr(c16Success) == 0 {
				fail("C16.no-retry", "the function never succeeded although Resolve was called after its failure")
			}
		},
	})
	eng.Register(&eng.Scenario{
		Name: "once-two-abandons", Props: []string{"C16"}, MustFinish: true, ObsNames: stdObs,
		Doc:   "promise.Once whose function honours its context (returns context.Canceled if the starter's context is cancelled while it runs): callers A and C have cancellable contexts with a canceller each, caller B has a live context: B may sit through two abandoned attempts in a row (A's, then C's) and still obtains the value; it never gets context.Canceled",
		Quick: eng.Bounds{PB: 3, Delay: true}, Thorough: eng.Bounds{PB: 4, Delay: true},
		Body: func() {
			bg := context.Background()
			once := promise.NewOnce(func(ctx context.Context) (int, error) {
				n := vsched.CtrAdd(c16Calls, 1)
				if vsched.CtrAdd(c16Active, 1) > 1 {
					fail("C16.overlap", "function running twice at the same time (call %d)", n)
				}
				if vsched.Ctr(c16Success) != 0 {
					fail("C16.called-after-success", "function called again (call %d) after it had returned without error", n)
				}
				vsched.Point()
				vsched.CtrAdd(c16Active, -1)
				if ctx.Err() != nil {
					return 0, context.Canceled
				}
				vsched.CtrSet(c16Success, 7)
				return 7, nil
			})
			ctxA, cancelA := context.WithCancel(bg)
			ctxC, cancelC := context.WithCancel(bg)
			cancellable := func(name string, ctx context.Context, flag int) {
				T(name, func() {
					label("Once.Resolve")
					v, err := once.Resolve(ctx)
					label("")
					if !(v == 7 && err == nil) && !(v == 0 && err == context.Canceled && vsched.Ctr(flag) != 0) {
						fail("C16.wrong-value", "caller %s got (%d,%v)", name, v, err)
					}
				})
			}
			cancellable("A", ctxA, c16Cancel)
			cancellable("C", ctxC, c16Cancel+20)
			T("B", func() {
				label("Once.Resolve")
				v, err := once.Resolve(bg)
				label("")
				vsched.Observe(oRet, 1, int64(v), b2i(err != nil))
				if err == context.Canceled {
					fail("C16.spurious-cancel", "Resolve returned context.Canceled to caller B, whose context is live (it sat through %d abandoned attempt(s))", vsched.Ctr(c16Calls)-1)
				} else if v != 7 || err != nil {
					fail("C16.wrong-value", "caller B got (%d,%v)", v, err)
				}
			})
			T("XA", func() { vsched.CtrSet(c16Cancel, 1); cancelA() })
			T("XC", func() { vsched.CtrSet(c16Cancel+20, 1); cancelC() })
			vsched.Settle()
			if n := vsched.CountParked("Once.Resolve"); n > 0 {
				fail("C16.stuck", "%d Resolve caller(s) never returned", n)
			}
		},
	})
	eng.Register(&eng.Scenario{
		Name: "memo-3", Props: []string{"C16"}, MustFinish: true, ObsNames: stdObs,
		Doc:   "memo.MemoizeFunc: 3 concurrent callers + a late caller, function returns a value, an error, a partial value together with an error, or the zero value (choice); exactly one call, everybody gets its result pair",
		Quick: eng.Bounds{PB: 3}, Thorough: eng.Bounds{PB: 6},
		Body: func() {
			// outcome of the only call: (7,nil), (0,E), (5,E) (a partial value together with an error), (0,nil)
			outcome := vsched.Choose(4)
			wantV := []int{7, 0, 5, 0}[outcome]
			wantE := []error{nil, errOnce, errOnce, nil}[outcome]
			f := memo.MemoizeFunc(func() (int, error) {
				if vsched.CtrAdd(c16Calls, 1) > 1 {
					fail("C16.memo-called-twice", "memoized function called twice")
				}
				vsched.Point()
				return wantV, wantE
			})
			check := func() {
				label("memo")
				v, err := f()
				label("")
				vsched.Observe(oRet, int64(v), b2i(err != nil), 0)
				if v != wantV || err != wantE {
					fail("C16.memo-result", "caller received (%d,%v), the only call of the function returned (%d,%v)", v, err, wantV, wantE)
				}
			}
			for i := 0; i < 3; i++ {
				T("M", check)
			}
			vsched.Settle()
			check()
			if vsched.Ctr(c16Calls) != 1 {
				fail("C16.memo-called-twice", "function called %d times", vsched.Ctr(c16Calls))
			}
		},
	})
	eng.Register(&eng.Scenario{
		Name: "memo-panic", Props: []string{"C16"}, MustFinish: true, ObsNames: stdObs,
		Doc:   "memo.MemoizeFunc whose function panics (the caller that ran it recovers): the function was called exactly once in total, so the other two concurrent callers and a late caller return (with that call's zero result) instead of waiting for ever, and the function is not called again",
		Quick: eng.Bounds{PB: 3}, Thorough: eng.Bounds{PB: 5},
		Body: func() {
			f := memo.MemoizeFunc(func() (int, error) {
				vsched.CtrAdd(c16Calls, 1)
				vsched.Point()
				panic("memoized function failed")
			})
			call := func() {
				defer func() { recover() }()
				label("memo")
				v, err := f()
				label("")
				vsched.Observe(oRet, int64(v), b2i(err != nil), 0)
				if v != 0 || err != nil {
					fail("C16.memo-result", "caller received (%d,%v) from a call that panicked", v, err)
				}
			}
			for i := 0; i < 3; i++ {
				T("M", call)
			}
			vsched.Settle()
			if n := vsched.CountParked("memo"); n > 0 {
				fail("C16.stuck", "%d caller(s) of the memoized function wait for ever after its only call panicked", n)
				return
			}
			call()
			if vsched.Ctr(c16Calls) != 1 {
				fail("C16.memo-called-twice", "function called %d times", vsched.Ctr(c16Calls))
			}
		},
	})
}
