package scn

import (
	"context"
	"errors"

	"github.com/aperturerobotics/util/ccontainer"
	"github.com/aperturerobotics/util/refcount"
	"github.com/aperturerobotics/util/zzverif/vsched"
	"verifharness/eng"
)

const (
	rcCalls     = iota // resolver calls so far
	rcResolving        // resolver calls in progress
	rcHeld             // references held (AddRef returned, Release not yet called)
	rcCtxChange        // context-change calls begun
	rcCtxSet           // 1 if the last context given is non-nil
	rcKeep
	rcCtxDone       // context-change calls completed
	rcMode0   = 10  // +i  script of call i
	rcRel0    = 20  // +i  times the release func of call i ran
	rcInv0    = 30  // +i  released() of call i was invoked
	rcRet0    = 40  // +i  call i returned: 1 value, 2 error
	rcDeliv0  = 50  // +i  value of call i was delivered to some reference callback
	rcCtxAt0  = 60  // +i  rcCtxDone (context changes completed) when call i started
	rcLastRes = 70  // +j  last callback of ref j: 0 none, 1 (false,..), 2 (true,..)
	rcLastVal = 80  // +j
	rcLastErr = 90  // +j
	rcRefHeld = 100 // +j
	rcCtxBg0  = 150 // +i  rcCtxChange (context changes begun) when call i started
	rcErrRel0 = 160 // +i  call i returned an error together with a release function
	rcZero    = 170 // some call returned the zero value successfully (rcRet0 = 3)
)

// resolver scripts
const (
	mValue       = iota // return value + release func
	mError              // return an error
	mLate               // return the value only after the resolver context is cancelled
	mSlow               // take two steps, then return the value
	mInvalidate         // return the value; a separate thread calls released() at any time
	mErrorRel           // return an error together with a (partial) value and a release function (which must still run exactly once)
	mZeroRel            // return the zero value with a release function and no error
	mErrCanceled        // return the error context.Canceled itself although the resolver context is live
	mEarlyInv           // call released() synchronously while still resolving, then return the value (already invalidated)
)

var errResolve = errors.New("resolve-error")

func valOf(i int) int { return 100 + i }

type rcEnv struct {
	rc        *refcount.RefCount[int]
	target    *ccontainer.CContainer[int]
	targetErr *ccontainer.CContainer[*error]
	onRelease func(i int)  // optional: runs inside the release function of call i
	gate2     *vsched.Gate // optional: resolver call 2 waits for it before returning
}

// newRC2 builds a RefCount whose resolver follows script(i) for call i (1-based).
func newRC2(ctx context.Context, keep bool, script func(i int) int) *rcEnv {
	return newRC2Opt(ctx, keep, script, false)
}

// newRC2Opt: with noErrTarget the RefCount is built without an error container (documented: may be nil).
func newRC2Opt(ctx context.Context, keep bool, script func(i int) int, noErrTarget bool) *rcEnv {
	e := &rcEnv{target: ccontainer.NewCContainer[int](0), targetErr: ccontainer.NewCContainer[*error](nil)}
	if noErrTarget {
		e.targetErr = nil
	}
	vsched.CtrSet(rcKeep, b2i(keep))
	if ctx != nil {
		vsched.CtrSet(rcCtxSet, 1)
	}
	e.rc = refcount.NewRefCount[int](ctx, keep, e.target, e.targetErr, func(rctx context.Context, released func()) (int, func(), error) {
		i := int(vsched.CtrAdd(rcCalls, 1))
		if i > 8 {
			fail("infra.too-many-resolves", "more than 8 resolver calls")
			return 0, nil, errResolve
		}
		if vsched.CtrAdd(rcResolving, 1) > 1 {
			fail("C09.resolver-overlap", "resolver call %d started while another resolver call is still running", i)
		}
		mode := script(i)
		vsched.CtrSet(rcMode0+i, int64(mode))
		vsched.CtrSet(rcCtxAt0+i, vsched.Ctr(rcCtxDone))
		vsched.CtrSet(rcCtxBg0+i, vsched.Ctr(rcCtxChange))
		vsched.Observe(oEnter, int64(i), int64(mode), 0)
		vsched.SetCell(49+i, released)
		if i == 2 && e.gate2 != nil {
			e.gate2.Wait()
		}
		switch mode {
		case mLate:
			<-rctx.Done()
		case mSlow:
			vsched.Point()
			vsched.Point()
		case mInvalidate:
			vsched.GoNamed("", func() {
				vsched.CtrSet(rcInv0+i, 1)
				released()
			})
		case mEarlyInv:
			vsched.CtrSet(rcInv0+i, 1)
			released()
		}
		vsched.CtrAdd(rcResolving, -1)
		if mode == mErrorRel {
			vsched.CtrSet(rcRet0+i, 2)
			vsched.CtrSet(rcErrRel0+i, 1)
			vsched.Observe(oExit, int64(i), 3, 0)
			return valOf(i), func() { e.releaseFn(i) }, errResolve
		}
		if mode == mZeroRel {
			vsched.CtrSet(rcRet0+i, 3)
			vsched.CtrSet(rcZero, 1)
			vsched.Observe(oExit, int64(i), 4, 0)
			return 0, func() { e.releaseFn(i) }, nil
		}
		if mode == mError || mode == mErrCanceled {
			vsched.CtrSet(rcRet0+i, 2)
			vsched.Observe(oExit, int64(i), 2, 0)
			if mode == mErrCanceled {
				return 0, nil, context.Canceled
			}
			return 0, nil, errResolve
		}
		vsched.CtrSet(rcRet0+i, 1)
		vsched.Observe(oExit, int64(i), 1, 0)
		return valOf(i), func() { e.releaseFn(i) }, nil
	})
	return e
}

// releaseFn is the release function of call i's value.
func (e *rcEnv) releaseFn(i int) {
	n := vsched.CtrAdd(rcRel0+i, 1)
	vsched.Observe(oRel, int64(i), n, 0)
	if n > 1 {
		fail("released-twice", "release function of value %d called %d times", valOf(i), n)
		return
	}
	if e.onRelease != nil {
		e.onRelease(i)
	}
	if e.target.GetValue() == valOf(i) {
		fail("C08.exposed-after-release", "release function of value %d runs while the target container still holds it", valOf(i))
	}
	for j := 0; j < 6; j++ {
		if vsched.Ctr(rcRefHeld+j) != 0 && vsched.Ctr(rcLastRes+j) == 2 && int(vsched.Ctr(rcLastVal+j)) == valOf(i) {
			fail("C08.ref-not-told", "release function of value %d runs but held reference %d was last told (true,%d)", valOf(i), j, valOf(i))
		}
	}
	if vsched.Ctr(rcDeliv0+i) != 0 && vsched.Ctr(rcInv0+i) == 0 && vsched.Ctr(rcCtxChange) <= vsched.Ctr(rcCtxAt0+i) && vsched.Ctr(rcHeld) > 0 {
		fail("C08.released-while-held", "value %d released although %d reference(s) are held, it was not invalidated and the context did not change", valOf(i), vsched.Ctr(rcHeld))
	}
}

// refCb is the callback of reference j.
func refCb(j int) func(bool, int, error) {
	return func(resolved bool, val int, err error) {
		vsched.Observe(oCb, int64(j), b2i(resolved), int64(val))
		if resolved && vsched.Ctr(rcLastRes+j) == 2 && (int(vsched.Ctr(rcLastVal+j)) != val || (vsched.Ctr(rcLastErr+j) != 0) != (err != nil)) {
			// a stored result is only ever replaced after it was dropped: the reference is told
			// (false, ...) in between ("dropped and resolved afresh")
			fail("C09.replaced-without-drop", "reference %d was told (true,%d,err=%v) directly after (true,%d,err=%v): the earlier result was overwritten without being dropped", j, val, err != nil, vsched.Ctr(rcLastVal+j), vsched.Ctr(rcLastErr+j) != 0)
		}
		vsched.CtrSet(rcLastRes+j, 1+b2i(resolved))
		vsched.CtrSet(rcLastVal+j, int64(val))
		vsched.CtrSet(rcLastErr+j, b2i(err != nil))
		if resolved && err == nil && val == 0 && vsched.Ctr(rcZero) != 0 {
			// (a resolver call resolved the zero value)
			for i := int(vsched.Ctr(rcCalls)); i >= 1; i-- {
				if i <= 8 && vsched.Ctr(rcRet0+i) == 3 {
					vsched.CtrSet(rcDeliv0+i, 1)
					break
				}
			}
			return
		}
		if resolved && err == nil {
			i := val - 100
			if i < 1 || i > 8 || vsched.Ctr(rcRet0+i) != 1 {
				fail("C09.bogus-value", "reference %d was told (true,%d) which no resolver call returned", j, val)
				return
			}
			vsched.CtrSet(rcDeliv0+i, 1)
			if vsched.Ctr(rcRel0+i) != 0 {
				fail("C08.exposed-after-release", "reference %d was given value %d after its release function ran", j, val)
			}
		}
		if !resolved && (val != 0 || err != nil) {
			fail("C09.bogus-value", "reference %d was told (false,%d,%v)", j, val, err)
		}
	}
}

// user: AddRef(cb or nil), hold, Release (optionally twice).
func (e *rcEnv) user(j int, nilCb, double bool) {
	var cb func(bool, int, error)
	if !nilCb {
		cb = refCb(j)
	}
	label("AddRef")
	ref := e.rc.AddRef(cb)
	label("")
	vsched.CtrSet(rcRefHeld+j, 1)
	vsched.CtrAdd(rcHeld, 1)
	vsched.Point()
	vsched.CtrAdd(rcHeld, -1)
	vsched.CtrSet(rcRefHeld+j, 0)
	label("Release")
	ref.Release()
	if double {
		ref.Release()
	}
	label("")
}

func (e *rcEnv) setContext(ctx context.Context) {
	vsched.CtrAdd(rcCtxChange, 1)
	vsched.CtrSet(rcCtxSet, b2i(ctx != nil))
	label("SetContext")
	if ctx == nil && vsched.Ctr(rcCtxChange)%2 == 0 {
		e.rc.ClearContext() // (the two spellings of "no context" alternate)
	} else {
		e.rc.SetContext(ctx)
	}
	label("")
	vsched.CtrAdd(rcCtxDone, 1)
}

// quiescentOracle (C09): with a context and a held reference, a resolver call is in progress
// or the latest result is in the containers and in every held reference's last callback.
func (e *rcEnv) quiescentOracle(heldRefs []int) {
	e.invalidatedReleased()
	if vsched.Ctr(rcCtxSet) == 0 || vsched.Ctr(rcHeld) == 0 {
		return
	}
	if vsched.Ctr(rcResolving) > 0 {
		return // a resolver call is parked (late mode)
	}
	n := int(vsched.Ctr(rcCalls))
	if n == 0 {
		fail("C09.not-resolved", "context set and %d reference(s) held but the resolver was never called", vsched.Ctr(rcHeld))
		return
	}
	last := int(vsched.Ctr(rcRet0 + n))
	if last == 0 {
		fail("C09.not-resolved", "resolver call %d neither running nor returned at quiescence", n)
		return
	}
	v := e.target.GetValue()
	var perr *error
	if e.targetErr != nil {
		perr = e.targetErr.GetValue()
	} else if last == 2 {
		perr = &errResolve // no error container: nothing to compare
	}
	if i := v - 100; i >= 1 && i <= 8 && vsched.Ctr(rcInv0+i) != 0 {
		// (quiescent: the released() invocation has completed, also when it went through a goroutine)
		fail("C09.invalidated-value-kept", "released() was called for value %d but at quiescence it is still the current value: it was not dropped and resolved afresh", v)
		return
	}
	if last == 3 {
		if v != 0 || (perr != nil && *perr != nil) {
			fail("C09.result-not-delivered", "latest resolver call %d resolved the zero value but target=%d targetErr=%v", n, v, perr)
		}
	} else if last == 1 {
		if v != valOf(n) || (perr != nil && *perr != nil) {
			fail("C09.result-not-delivered", "latest resolver call %d returned %d but target=%d targetErr=%v", n, valOf(n), v, perr)
		}
	} else if v != 0 || perr == nil || *perr != errResolve {
		fail("C09.result-not-delivered", "latest resolver call %d returned an error but target=%d targetErr=%v", n, v, perr)
	}
	for _, j := range heldRefs {
		if vsched.Ctr(rcRefHeld+j) == 0 {
			continue
		}
		res, lv, le := vsched.Ctr(rcLastRes+j), int(vsched.Ctr(rcLastVal+j)), vsched.Ctr(rcLastErr+j)
		if last == 1 && (res != 2 || lv != valOf(n) || le != 0) {
			fail("C09.result-not-delivered", "held reference %d was last told (res=%d,val=%d,err=%d), latest result is value %d", j, res, lv, le, valOf(n))
		}
		if last == 3 && (res != 2 || lv != 0 || le != 0) {
			fail("C09.result-not-delivered", "held reference %d was last told (res=%d,val=%d,err=%d), latest result is the zero value", j, res, lv, le)
		}
		if last == 2 && (res != 2 || le != 1) {
			fail("C09.result-not-delivered", "held reference %d was last told (res=%d,val=%d,err=%d), latest result is an error", j, res, lv, le)
		}
	}
}

// invalidatedReleased (C08): at quiescence a value whose released() callback was invoked has been released,
// whether or not references are held.
func (e *rcEnv) invalidatedReleased() {
	n := int(vsched.Ctr(rcCalls))
	for i := 1; i <= n && i <= 8; i++ {
		if vsched.Ctr(rcInv0+i) != 0 && vsched.Ctr(rcRet0+i) == 1 && vsched.Ctr(rcRel0+i) != 1 {
			fail("C08.not-released", "released() was invoked for resolver call %d, which returned value %d: at quiescence its release function ran %d times", i, valOf(i), vsched.Ctr(rcRel0+i))
			return
		}
	}
}

// finalRelease (C08): after everything is released and quiet, every returned value has been
// released exactly once (unless legitimately kept).
func (e *rcEnv) finalRelease() {
	n := int(vsched.Ctr(rcCalls))
	cur := e.target.GetValue()
	keepOK := vsched.Ctr(rcKeep) != 0 && vsched.Ctr(rcCtxSet) != 0
	for i := 1; i <= n && i <= 8; i++ {
		if vsched.Ctr(rcErrRel0+i) != 0 && vsched.Ctr(rcHeld) == 0 {
			if rel := vsched.Ctr(rcRel0 + i); rel != 1 {
				fail("C08.not-released", "resolver call %d returned an error together with a release function, which ran %d times although no reference is held any more", i, rel)
			}
		}
		if vsched.Ctr(rcRet0+i) == 3 {
			// the zero value resolved with a release function: kept only while it is the latest result and held / kept
			rel := vsched.Ctr(rcRel0 + i)
			ctxChanged := vsched.Ctr(rcCtxDone) > vsched.Ctr(rcCtxBg0+i)
			if i == n && !ctxChanged && vsched.Ctr(rcInv0+i) == 0 && vsched.Ctr(rcHeld) > 0 && vsched.Ctr(rcDeliv0+i) != 0 {
				if rel != 0 {
					fail("C08.released-while-current", "the zero value of call %d is the current result and was delivered to a held reference but its release function already ran", i)
				}
			} else if i == n && !ctxChanged && vsched.Ctr(rcInv0+i) == 0 && keepOK {
				// kept, or dropped in flight and released on arrival: the (zero) target cannot tell which
			} else if rel != 1 {
				fail("C08.not-released", "resolver call %d resolved the zero value together with a release function, which ran %d times at final quiescence (held refs=%d keep=%d ctx=%d)", i, rel, vsched.Ctr(rcHeld), vsched.Ctr(rcKeep), vsched.Ctr(rcCtxSet))
			}
			continue
		}
		if vsched.Ctr(rcRet0+i) != 1 {
			continue
		}
		rel := vsched.Ctr(rcRel0 + i)
		ctxChanged := vsched.Ctr(rcCtxDone) > vsched.Ctr(rcCtxBg0+i) // a context change began and completed after call i started
		if valOf(i) == cur && (vsched.Ctr(rcHeld) > 0 || keepOK) && !ctxChanged {
			if rel != 0 {
				fail("C08.released-while-current", "value %d is still the target's content but its release function already ran", cur)
			}
			continue
		}
		if rel != 1 {
			fail("C08.not-released", "value %d was released %d times at final quiescence (held refs=%d keep=%d ctx=%d current=%d)", valOf(i), rel, vsched.Ctr(rcHeld), vsched.Ctr(rcKeep), vsched.Ctr(rcCtxSet), cur)
		}
	}
}

func init() {
	bg := context.Background()
	firstThen := func(first int) func(int) int {
		return func(i int) int {
			if i == 1 {
				return first
			}
			return mValue
		}
	}
	eng.Register(&eng.Scenario{
		Name: "refcount-refs", Props: []string{"C08", "C09"}, MustFinish: true, ObsNames: stdObs,
		Doc:   "RefCount (keep-unreferenced f/t): two reference users AddRef(cb | nil)..Release[twice]; first resolver call scripted {value, error, late, slow, value+released() from another thread, error+release func}; release-exactly-once, not-exposed-after-release, resolver-overlap, result-delivered oracles",
		Quick: eng.Bounds{PB: 3, Delay: true, Cap: 6000000}, Thorough: eng.Bounds{PB: 4, Delay: true},
		Body: func() {
			keep := vsched.Choose(2) == 1
			e := newRC2(bg, keep, firstThen(vsched.Choose(6)))
			nilCb := vsched.Choose(2) == 1
			T("U0", func() { e.user(0, false, true) })
			T("U1", func() { e.user(1, nilCb, false) })
			vsched.Settle()
			e.finalRelease()
			if vsched.Choose(2) == 1 {
				// a different (non-nil) context while nothing is referenced: a value kept under
				// keep-unreferenced was resolved for the old context and must be released
				e.setContext(context.WithValue(bg, ctxKey{}, 9))
				vsched.Settle()
				e.finalRelease()
			}
			e.setContext(nil)
			vsched.Settle()
			e.finalRelease()
		},
	})
	eng.Register(&eng.Scenario{
		Name: "refcount-rootcancel", Props: []string{"C09", "C08", "C10"}, MustFinish: true, ObsNames: stdObs,
		Doc:   "RefCount whose root context is cancelled from outside (not through SetContext) while the resolver call is running {value, slow, late, error}: with a context and a held reference the result of that call must still be delivered; optionally the resolver then calls released() for it: it is dropped and released",
		Quick: eng.Bounds{PB: 2}, Thorough: eng.Bounds{PB: 4},
		Body: func() {
			root, cancel := context.WithCancel(bg)
			e := newRC2(root, false, firstThen([]int{mValue, mSlow, mLate, mError}[vsched.Choose(4)]))
			// optionally a callback-less reference is added first (it is met first when results are fanned out)
			var ka *refcount.Ref[int]
			if vsched.Choose(2) == 1 {
				ka = e.rc.AddRef(nil)
				vsched.CtrAdd(rcHeld, 1)
			}
			ref := e.rc.AddRef(refCb(0))
			vsched.CtrSet(rcRefHeld+0, 1)
			vsched.CtrAdd(rcHeld, 1)
			// a consumer with a live context of its own: it gets the outcome of that resolver call
			// (value or resolver error), it is not left waiting
			T("WT", func() {
				label("Wait")
				v, wref, err := e.rc.Wait(bg)
				label("")
				if err == nil {
					if i := v - 100; i < 1 || i > 8 || vsched.Ctr(rcRet0+i) != 1 {
						fail("C10.bogus-value", "Wait returned %d which no resolver call returned", v)
					}
					wref.Release()
				} else if err != errResolve {
					fail("C10.wrong-error", "Wait (live caller context; the root context was cancelled by its owner) returned %v, want the resolver's outcome", err)
				}
			})
			T("X", func() { cancel() })
			vsched.Settle()
			if n := vsched.CountParked("Wait"); n > 0 && vsched.Ctr(rcResolving) == 0 && vsched.Ctr(rcCalls) > 0 {
				fail("C10.wrong-error", "the resolver call has returned (the root context was cancelled from outside while it ran) but a Wait caller with a live context is still waiting: the call's outcome was dropped")
			}
			e.quiescentOracle([]int{0})
			// the resolver now invalidates whatever it delivered (its context was cancelled by the owner, not
			// through SetContext: the value is still stored and held): it must be dropped and released
			if n := int(vsched.Ctr(rcCalls)); vsched.Choose(2) == 1 && n >= 1 && vsched.Ctr(rcRet0+n) == 1 && e.target.GetValue() == valOf(n) {
				if f, ok := vsched.GetCell(49 + n).(func()); ok {
					vsched.CtrSet(rcInv0+n, 1)
					f()
					vsched.Settle()
					if vsched.Ctr(rcRel0+n) != 1 {
						fail("C08.not-released", "released() was called for the held value %d (after the root context had been cancelled from outside) but its release function ran %d times by the next quiescent state", valOf(n), vsched.Ctr(rcRel0+n))
					}
					if e.target.GetValue() == valOf(n) {
						fail("C09.invalidated-value-kept", "released() was called for value %d but at quiescence it is still in the target container", valOf(n))
						fail("C10.invalidated-value-served", "released() was called for value %d (root context cancelled from outside) but it is still the current value: Wait / Resolve / Access keep handing it out and nobody holding it is told", valOf(n))
					}
				}
			}
			// a reader of the target container takes the container's lock at any moment while the last
			// reference is dropped (the value is cleared from the container before its release function runs)
			if ka != nil {
				vsched.CtrAdd(rcHeld, -1)
				ka.Release()
			}
			T("TR", func() {
				for i := 0; i < 2; i++ {
					e.target.GetValue()
				}
			})
			vsched.CtrAdd(rcHeld, -1)
			vsched.CtrSet(rcRefHeld+0, 0)
			ref.Release()
			vsched.Settle()
			e.finalRelease()
		},
	})
	heldBody := func(modes []int) func() {
		return func() {
			keep := vsched.Choose(2) == 1
			e := newRC2Opt(bg, keep, firstThen(modes[vsched.Choose(len(modes))]), vsched.Choose(2) == 1)
			ref := e.rc.AddRef(refCb(0))
			vsched.CtrSet(rcRefHeld+0, 1)
			vsched.CtrAdd(rcHeld, 1)
			ctxOp := vsched.Choose(3)
			T("U1", func() { e.user(1, false, false) })
			T("X", func() {
				switch ctxOp {
				case 0:
					e.setContext(context.WithValue(bg, ctxKey{}, 2))
				case 1:
					e.setContext(nil)
					e.setContext(context.WithValue(bg, ctxKey{}, 2))
				}
			})
			vsched.Settle()
			e.quiescentOracle([]int{0})
			// a reference added after resolution gets the current result
			late := e.rc.AddRef(refCb(2))
			vsched.CtrSet(rcRefHeld+2, 1)
			vsched.CtrAdd(rcHeld, 1)
			vsched.Settle()
			e.quiescentOracle([]int{0, 2})
			vsched.CtrAdd(rcHeld, -2)
			vsched.CtrSet(rcRefHeld+0, 0)
			vsched.CtrSet(rcRefHeld+2, 0)
			ref.Release()
			late.Release()
			vsched.Settle()
			e.finalRelease()
			e.setContext(nil)
			vsched.Settle()
			e.finalRelease()
		}
	}
	eng.Register(&eng.Scenario{
		Name: "refcount-held", Props: []string{"C09", "C08"}, MustFinish: true, ObsNames: stdObs,
		Doc:   "RefCount (with or without an error container, choice): a reference stays held while a second user comes and goes, a context thread does {SetContext(c2) | ClearContext;SetContext(c2) | nothing} and the first value may be invalidated by released(); at quiescence the latest result must be in the containers and in every held reference's last callback",
		Quick: eng.Bounds{PB: 3, Delay: true}, Thorough: eng.Bounds{PB: 4, Delay: true},
		Body: heldBody([]int{mValue, mInvalidate, mError, mSlow, mErrorRel}),
	})
	eng.Register(&eng.Scenario{
		Name: "refcount-outcomes", Props: []string{"C08", "C09"}, MustFinish: true, ObsNames: stdObs,
		Doc:   "RefCount: as refcount-held with the unusual resolver outcomes for the first call: an error together with a partial value and a release function, the zero value together with a release function, released() invoked synchronously before the value is returned (the value is stale on arrival: released, resolved afresh)",
		Quick: eng.Bounds{PB: 3, Delay: true}, Thorough: eng.Bounds{PB: 4, Delay: true},
		Body: heldBody([]int{mErrorRel, mZeroRel, mEarlyInv}),
	})
	eng.Register(&eng.Scenario{
		Name: "refcount-release-addref", Props: []string{"C09", "C08"}, MustFinish: true, ObsNames: stdObs,
		Doc:   "RefCount (keep-unreferenced f/t, first call resolved or still running; choices): the last reference is released while another goroutine adds a new one (with or without callback) and keeps it: whichever order they take effect in, at quiescence the RefCount is referenced with a context, so a resolver call is in progress or its latest result is delivered",
		Quick: eng.Bounds{PB: 3}, Thorough: eng.Bounds{PB: 5},
		Body: func() {
			keep := vsched.Choose(2) == 1
			e := newRC2(bg, keep, firstThen([]int{mValue, mSlow, mError}[vsched.Choose(3)]))
			r1 := e.rc.AddRef(refCb(0))
			vsched.CtrSet(rcRefHeld+0, 1)
			vsched.CtrAdd(rcHeld, 1)
			if vsched.Choose(2) == 1 {
				vsched.Settle()
			}
			gRel := &vsched.Gate{}
			T("R", func() {
				vsched.CtrSet(rcRefHeld+0, 0)
				vsched.CtrAdd(rcHeld, -1)
				r1.Release()
			})
			T("A", func() {
				r2 := e.rc.AddRef(refCb(1))
				vsched.CtrSet(rcRefHeld+1, 1)
				vsched.CtrAdd(rcHeld, 1)
				gRel.Wait() // (the goroutine that obtained the reference also releases it)
				vsched.CtrSet(rcRefHeld+1, 0)
				vsched.CtrAdd(rcHeld, -1)
				r2.Release()
			})
			vsched.Settle()
			e.quiescentOracle([]int{1})
			gRel.Open()
			vsched.Settle()
			e.finalRelease()
			e.setContext(nil)
			vsched.Settle()
			e.finalRelease()
		},
	})
	eng.Register(&eng.Scenario{
		Name: "refcount-addref-invalidate", Props: []string{"C09", "C10"}, MustFinish: true, ObsNames: stdObs,
		Doc:   "RefCount with a resolved value and a held reference: T1 = AddRef(callback) and keep it  ||  T2 = released() for that value (it is dropped and resolved afresh; or SetContext(fresh), choice): at quiescence the new reference's last callback is the latest result - a snapshot taken when it was added may not arrive after the replacement; no reference is told a new result directly after another without a drop in between",
		Quick: eng.Bounds{PB: 2}, Thorough: eng.Bounds{PB: 4},
		Body: func() {
			e := newRC2(bg, vsched.Choose(2) == 1, func(int) int { return mValue })
			r0 := e.rc.AddRef(refCb(0))
			vsched.CtrSet(rcRefHeld+0, 1)
			vsched.CtrAdd(rcHeld, 1)
			vsched.Settle()
			how := vsched.Choose(2)
			gRel := &vsched.Gate{}
			T("A", func() {
				r1 := e.rc.AddRef(refCb(1))
				vsched.CtrSet(rcRefHeld+1, 1)
				vsched.CtrAdd(rcHeld, 1)
				gRel.Wait()
				vsched.CtrSet(rcRefHeld+1, 0)
				vsched.CtrAdd(rcHeld, -1)
				r1.Release()
			})
			T("I", func() {
				if f, ok := vsched.GetCell(50).(func()); ok && how == 0 {
					vsched.CtrSet(rcInv0+1, 1)
					f()
				} else {
					e.setContext(context.WithValue(bg, ctxKey{}, 2))
				}
			})
			vsched.Settle()
			e.quiescentOracle([]int{0, 1})
			gRel.Open()
			vsched.Settle()
			vsched.CtrSet(rcRefHeld+0, 0)
			vsched.CtrAdd(rcHeld, -1)
			r0.Release()
			vsched.Settle()
			e.finalRelease()
			e.setContext(nil)
			vsched.Settle()
			e.finalRelease()
		},
	})
	eng.Register(&eng.Scenario{
		Name: "refcount-dead-context", Props: []string{"C08", "C09"}, MustFinish: true, ObsNames: stdObs,
		Doc:   "RefCount (keep-unreferenced f/t) with a resolved value and a held reference (or, with keep, none): SetContext with a context that is already cancelled is a context change like any other: it reports true, and by quiescence the value resolved under the previous context has been released exactly once, is gone from the target and the reference was told so",
		Quick: eng.Bounds{PB: 2}, Thorough: eng.Bounds{PB: 3},
		Body: func() {
			keep := vsched.Choose(2) == 1
			e := newRC2(bg, keep, func(int) int { return mValue })
			ref := e.rc.AddRef(refCb(0))
			vsched.CtrSet(rcRefHeld+0, 1)
			vsched.CtrAdd(rcHeld, 1)
			vsched.Settle()
			if keep && vsched.Choose(2) == 1 {
				vsched.CtrSet(rcRefHeld+0, 0)
				vsched.CtrAdd(rcHeld, -1)
				ref.Release()
				ref = nil
				vsched.Settle()
			}
			dead, cancel := context.WithCancel(context.WithValue(bg, ctxKey{}, 7))
			cancel()
			vsched.CtrAdd(rcCtxChange, 1)
			if !e.rc.SetContext(dead) {
				fail("C09.setcontext-flag", "SetContext(a different, already cancelled context) returned false")
			}
			vsched.CtrAdd(rcCtxDone, 1)
			vsched.Settle()
			if n := vsched.Ctr(rcRel0 + 1); n != 1 {
				fail("C08.not-released", "value 101 was resolved under the previous context; after SetContext(other context, already cancelled) and quiescence its release function ran %d times", n)
			}
			if e.target.GetValue() == valOf(1) {
				fail("C08.exposed-after-release", "the target still holds value 101 after the context it was resolved under was replaced")
			}
			if ref != nil && vsched.Ctr(rcLastRes+0) == 2 && int(vsched.Ctr(rcLastVal+0)) == valOf(1) {
				fail("C08.ref-not-told", "the held reference was last told (true,101) although the context changed")
			}
			if ref != nil {
				vsched.CtrSet(rcRefHeld+0, 0)
				vsched.CtrAdd(rcHeld, -1)
				ref.Release()
			}
			e.rc.ClearContext()
			vsched.Settle()
		},
	})
	eng.Register(&eng.Scenario{
		Name: "refcount-drop-inflight", Props: []string{"C09", "C08", "C10"}, MustFinish: true, ObsNames: stdObs,
		Doc:   "RefCount (not keep-unreferenced): the only reference is dropped while the resolver call it started is still running (the call returns its value only after its context was cancelled, or after two more steps; choice); once quiet nothing is referenced: the late value is released and not kept; a reference added afterwards gets a value resolved by a new call, never the late result of the abandoned one",
		Quick: eng.Bounds{PB: 2, Delay: true}, Thorough: eng.Bounds{PB: 3, Delay: true},
		Body: func() {
			e := newRC2(bg, false, firstThen([]int{mLate, mSlow}[vsched.Choose(2)]))
			r := e.rc.AddRef(refCb(0))
			if vsched.Choose(2) == 1 {
				vsched.Settle() // the resolver call is parked inside the resolver
			}
			r.Release()
			vsched.Settle()
			if vsched.Ctr(rcRet0+1) == 1 {
				if vsched.Ctr(rcRel0+1) != 1 {
					fail("C08.not-released", "resolver call 1 returned its value after the only reference had been dropped: its release function ran %d times by the next quiescent state", vsched.Ctr(rcRel0+1))
				}
				if e.target.GetValue() == valOf(1) {
					fail("C09.stale-result-kept", "nothing is referenced (and keep-unreferenced is off) but the target container holds the late result of the abandoned resolver call")
				}
			}
			calls := vsched.Ctr(rcCalls)
			r2 := e.rc.AddRef(refCb(1))
			vsched.CtrSet(rcRefHeld+1, 1)
			vsched.CtrAdd(rcHeld, 1)
			vsched.Settle()
			if vsched.Ctr(rcCalls) == calls && vsched.Ctr(rcLastRes+1) == 2 {
				fail("C09.stale-result-delivered", "a reference added while nothing was referenced was given (true,%d) without any new resolver call: the result of the call abandoned earlier", vsched.Ctr(rcLastVal+1))
			}
			e.quiescentOracle([]int{1})
			vsched.CtrAdd(rcHeld, -1)
			vsched.CtrSet(rcRefHeld+1, 0)
			r2.Release()
			vsched.Settle()
			e.finalRelease()
		},
	})
	eng.Register(&eng.Scenario{
		Name: "refcount-waitcontainer", Props: []string{"C09", "C10"}, MustFinish: true, ObsNames: stdObs, RacePB: 2,
		Doc:   "refcount.WaitRefCountContainer on the target / error containers of a RefCount whose first resolver call returns a value or an error (choice), while a reference user comes and goes and the context may change: it returns the value or the error that was delivered to the containers",
		Quick: eng.Bounds{PB: 2, Delay: true}, Thorough: eng.Bounds{PB: 3, Delay: true},
		Body: func() {
			e := newRC2(bg, false, firstThen([]int{mValue, mError, mSlow}[vsched.Choose(3)]))
			wctx, wcancel := context.WithCancel(bg)
			defer wcancel()
			T("W", func() {
				label("WaitRefCountContainer")
				v, err := refcount.WaitRefCountContainer(wctx, e.target, e.targetErr)
				label("")
				switch {
				case err == nil:
					if i := v - 100; i < 1 || i > 8 || vsched.Ctr(rcRet0+i) != 1 {
						fail("C09.bogus-value", "WaitRefCountContainer returned value %d which no resolver call returned", v)
					}
				case err == errResolve:
				case err == context.Canceled && vsched.Ctr(rcCtxChange) != 0:
				default:
					fail("C09.bogus-value", "WaitRefCountContainer returned (%d,%v)", v, err)
				}
			})
			hold := vsched.Choose(2) == 1 // a reference is held throughout: the result stays in the containers
			var held *refcount.Ref[int]
			if hold {
				held = e.rc.AddRef(nil)
			}
			T("U0", func() { e.user(0, false, false) })
			T("U1", func() { e.user(1, true, false) })
			vsched.Settle()
			if hold && vsched.CountParked("WaitRefCountContainer") > 0 {
				if pe := e.targetErr.GetValue(); pe != nil && *pe != nil {
					fail("C09.result-not-delivered", "the error container holds the resolver's error but WaitRefCountContainer is still blocked")
					fail("C10.wrong-error", "the resolver error is in the error container but WaitRefCountContainer does not return it")
				} else if e.target.GetValue() != 0 {
					fail("C09.result-not-delivered", "the target container holds a value but WaitRefCountContainer is still blocked")
				}
			}
			if held != nil {
				held.Release()
			}
			vsched.CtrAdd(rcCtxChange, 1)
			wcancel()
			vsched.Settle()
			e.finalRelease()
		},
	})
	eng.Register(&eng.Scenario{
		Name: "refcount-restarts", Props: []string{"C09", "C08"}, MustFinish: true, ObsNames: stdObs,
		Doc:   "RefCount: a held reference and several restarts issued while an old resolver call is still returning: resolver calls 1 and 2 are 'late' (return only after their context is cancelled, then take two more steps); controller issues every word of length 3 over {SetContext(fresh), released() of the newest call, AddRef;Release}; resolver-overlap oracle",
		Quick: eng.Bounds{PB: 2, Delay: true}, Thorough: eng.Bounds{PB: 3, Delay: true},
		Body: func() {
			e := newRC2(bg, false, func(i int) int {
				if i <= 2 {
					return mLate
				}
				return mValue
			})
			ref := e.rc.AddRef(refCb(0))
			vsched.CtrSet(rcRefHeld+0, 1)
			vsched.CtrAdd(rcHeld, 1)
			for k := 0; k < 3; k++ {
				switch vsched.Choose(3) {
				case 0:
					e.setContext(context.WithValue(bg, ctxKey{}, k+1))
				case 1:
					e.setContext(nil)
					e.setContext(context.WithValue(bg, ctxKey{}, k+1))
				case 2:
					r2 := e.rc.AddRef(nil)
					r2.Release()
				}
			}
			vsched.Settle()
			e.quiescentOracle([]int{0})
			vsched.CtrAdd(rcHeld, -1)
			vsched.CtrSet(rcRefHeld+0, 0)
			ref.Release()
			vsched.Settle()
			e.finalRelease()
		},
	})
}
