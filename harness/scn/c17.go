package scn

import (
	"context"
	"errors"
	"time"

	"github.com/aperturerobotics/util/ccall"
	"github.com/aperturerobotics/util/zzverif/vsched"
	"verifharness/eng"
)

// per-function counters: base + 4*i
const (
	c17Ran    = 0 // +4i: times entered
	c17Ret    = 1 // +4i: 0 not returned, else 1+outcome code
	c17Cancel = 100
	c17Done   = 101 // CallConcurrently returned
)

// outcome codes
const (
	fNilFn = iota
	fRetNil
	fRetE1
	fRetE2
	fRetCanceled
	fPark        // park until ctx done, return ctx.Err()
	fRetDeadline // return context.DeadlineExceeded: an error other than context.Canceled, like E1/E2
	fRetList     // return an error whose dynamic type is not comparable (a slice of messages)
)

// listErr is an error value of a non-comparable type: comparing two of them with == panics.
type listErr []string

func (l listErr) Error() string { return "several errors" }

var (
	errE1 = errors.New("E1")
	errE2 = errors.New("E2")
)

func outcomeErr(o int) error {
	switch o {
	case fRetE1:
		return errE1
	case fRetE2:
		return errE2
	case fRetCanceled, fPark:
		return context.Canceled
	case fRetDeadline:
		return context.DeadlineExceeded
	case fRetList:
		return listErr{"first", "second"}
	}
	return nil
}

func ccallBody(n int, withCancel bool, outcomes int) func() {
	return func() {
		bg := context.Background()
		ctx := bg
		var cancel context.CancelFunc
		if withCancel {
			ctx, cancel = context.WithCancel(bg)
			if n >= 2 && vsched.Choose(3) == 2 {
				// the caller's context had a deadline that has already passed: reported like a cancellation
				cancel()
				ctx, cancel = context.WithDeadline(bg, time.Unix(1, 0))
				vsched.CtrSet(c17Cancel, 1)
			}
		}
		outs := make([]int, n)
		fns := make([]ccall.CallConcurrentlyFunc, n)
		for i := range fns {
			i := i
			o := vsched.Choose(outcomes)
			outs[i] = o
			if o == fNilFn {
				continue
			}
			fns[i] = func(fctx context.Context) error {
				if vsched.CtrAdd(c17Ran+4*i, 1) > 1 {
					fail("C17.ran-twice", "function %d was called twice", i)
				}
				vsched.SetCell(i, fctx)
				vsched.Observe(oEnter, int64(i), int64(o), 0)
				var err error
				if o == fPark {
					<-fctx.Done()
					err = context.Canceled // (not fctx.Err(): under an expired caller context that would be DeadlineExceeded)
				} else {
					err = outcomeErr(o)
				}
				if vsched.Ctr(c17Done) == 0 {
					vsched.CtrSet(c17Ret+4*i, int64(1+o))
				} else {
					vsched.CtrSet(c17Ret+4*i, int64(100+o))
				}
				vsched.Observe(oExit, int64(i), int64(o), 0)
				return err
			}
		}
		if !withCancel {
			// without a canceller a parked function is released only by another function's error;
			// otherwise the call legitimately blocks forever: skip those outcome vectors
			park, hard := false, false
			for _, o := range outs {
				park = park || o == fPark
				hard = hard || o == fRetE1 || o == fRetE2 || o == fRetDeadline || o == fRetList
			}
			if park && !hard {
				return
			}
		}
		if withCancel {
			T("C", func() { vsched.CtrSet(c17Cancel, 1); cancel() })
		}
		r := ccall.CallConcurrently(ctx, fns...)
		vsched.CtrSet(c17Done, 1)
		cancelled := vsched.Ctr(c17Cancel) != 0
		code := int64(-1)
		switch r {
		case nil:
			code = 0
		case errE1:
			code = 1
		case errE2:
			code = 2
		case context.Canceled:
			code = 3
		case context.DeadlineExceeded:
			code = 4
		}
		vsched.Observe(oRet, code, b2i(cancelled), 0)
		// state at return time
		allReturned, anyNonCanceled, sawE1, sawE2, sawDL, sawList := true, false, false, false, false, false
		for i := range fns {
			if outs[i] == fNilFn {
				continue
			}
			rc := vsched.Ctr(c17Ret + 4*i)
			if rc == 0 || rc >= 100 {
				allReturned = false
				continue
			}
			switch int(rc - 1) {
			case fRetE1:
				sawE1, anyNonCanceled = true, true
			case fRetE2:
				sawE2, anyNonCanceled = true, true
			case fRetDeadline:
				sawDL, anyNonCanceled = true, true
			case fRetList:
				sawList, anyNonCanceled = true, true
			}
		}
		allNil := allReturned
		for i := range fns {
			if outs[i] != fNilFn && outs[i] != fRetNil {
				allNil = false
			}
		}
		_, isList := r.(listErr)
		switch {
		case isList:
			if !sawList {
				fail("C17.wrong-error", "returned the list error which no function had returned (outcomes %v)", outs)
			}
		case r == nil:
			if !allNil {
				fail("C17.nil-result", "CallConcurrently returned nil although not every function had returned nil (outcomes %v, all returned=%v)", outs, allReturned)
			}
		case r == errE1:
			if !sawE1 {
				fail("C17.wrong-error", "returned E1 which no function had returned (outcomes %v)", outs)
			}
		case r == errE2:
			if !sawE2 {
				fail("C17.wrong-error", "returned E2 which no function had returned (outcomes %v)", outs)
			}
		case r == context.DeadlineExceeded:
			if !sawDL {
				fail("C17.wrong-error", "returned context.DeadlineExceeded which no function had returned (outcomes %v)", outs)
			}
		case r == context.Canceled:
			if !cancelled && (!allReturned || anyNonCanceled) {
				fail("C17.canceled-result", "returned context.Canceled although the caller's context is live and a non-Canceled error exists or functions still run (outcomes %v)", outs)
			}
		default:
			fail("C17.wrong-error", "returned an unknown error %v", r)
		}
		// the functions' context is cancelled once the call has returned
		for i := range fns {
			if c, ok := vsched.GetCell(i).(context.Context); ok && c != nil {
				if c.Err() == nil {
					fail("C17.ctx-live", "context given to function %d is still live after CallConcurrently returned", i)
				}
			}
		}
		vsched.Settle()
		for i := range fns {
			want := int64(1)
			if outs[i] == fNilFn {
				want = 0
			}
			if got := vsched.Ctr(c17Ran + 4*i); got != want {
				fail("C17.ran-count", "function %d (outcome %d) ran %d times at quiescence, want %d", i, outs[i], got, want)
			}
			if c, ok := vsched.GetCell(i).(context.Context); ok && c != nil && c.Err() == nil {
				fail("C17.ctx-live", "context given to function %d is still live at quiescence", i)
			}
		}
	}
}

func init() {
	eng.Register(&eng.Scenario{
		Name: "ccall-reuse", Props: []string{"C17"}, MustFinish: true, ObsNames: stdObs,
		Doc:   "CallConcurrently called twice with the same argument slice containing nil entries in every position pattern (choice): every non-nil function runs exactly once per call and the caller's slice is left as it was",
		Quick: eng.Bounds{PB: 1}, Thorough: eng.Bounds{PB: 2},
		Body: func() {
			bg := context.Background()
			n := 2 + vsched.Choose(2)
			fns := make([]ccall.CallConcurrentlyFunc, n)
			isNil := make([]bool, n)
			for i := range fns {
				i := i
				if vsched.Choose(2) == 1 {
					isNil[i] = true
					continue
				}
				fns[i] = func(ctx context.Context) error {
					vsched.CtrAdd(c17Ran+4*i, 1)
					vsched.Observe(oEnter, int64(i), 0, 0)
					return nil
				}
			}
			for call := 1; call <= 2; call++ {
				if err := ccall.CallConcurrently(bg, fns...); err != nil {
					fail("C17.wrong-error", "call %d returned %v although every function returns nil", call, err)
				}
				for i := range fns {
					want := int64(call)
					if isNil[i] {
						want = 0
					}
					if got := vsched.Ctr(c17Ran + 4*i); got != want {
						fail("C17.ran-count", "after call %d function %d (nil entry: %v) has run %d times, want %d", call, i, isNil[i], got, want)
					}
					if (fns[i] == nil) != isNil[i] {
						fail("C17.args-modified", "after call %d entry %d of the caller's slice changed (nil before: %v, nil now: %v)", call, i, isNil[i], fns[i] == nil)
					}
				}
			}
		},
	})
	eng.Register(&eng.Scenario{
		Name: "ccall-straggler", Props: []string{"C17"}, MustFinish: true, ObsNames: stdObs,
		Doc:   "Two CallConcurrently calls issued one after the other by the same goroutine: in call 1 one function returns E1 at once (so the call returns early) while another ignores its context and returns (nil or E2, choice) only when a gate opens - possibly while call 2 is waiting for its own functions (one returns nil at once, one when a second gate opens): call 2 returns nil, only after both of its functions have returned, whatever the straggler of call 1 does",
		Quick: eng.Bounds{PB: 1}, Thorough: eng.Bounds{PB: 2},
		Body: func() {
			bg := context.Background()
			g1, g2 := &vsched.Gate{}, &vsched.Gate{}
			stragglerErr := []error{nil, errE2}[vsched.Choose(2)]
			T("R1", func() { g1.Open() })
			T("R2", func() { g2.Open() })
			err1 := ccall.CallConcurrently(bg,
				func(ctx context.Context) error { return errE1 },
				func(ctx context.Context) error { g1.Wait(); vsched.CtrSet(c17Ret, 1); return stragglerErr },
			)
			if err1 != errE1 && !(err1 == errE2 && stragglerErr == errE2) {
				fail("C17.wrong-error", "call 1 returned %v", err1)
			}
			err2 := ccall.CallConcurrently(bg,
				func(ctx context.Context) error { vsched.CtrAdd(c17Ran+4, 1); return nil },
				func(ctx context.Context) error { g2.Wait(); vsched.CtrAdd(c17Ran+8, 1); return nil },
			)
			if err2 != nil {
				fail("C17.wrong-error", "call 2 returned %v, which none of its functions returned (its functions return nil)", err2)
			}
			if vsched.Ctr(c17Ran+4) != 1 || vsched.Ctr(c17Ran+8) != 1 {
				fail("C17.nil-result", "call 2 returned nil although not all of its functions have returned yet (returned: %d, %d)", vsched.Ctr(c17Ran+4), vsched.Ctr(c17Ran+8))
			}
			vsched.Settle()
		},
	})
	eng.Register(&eng.Scenario{
		Name: "ccall-ignore-ctx", Props: []string{"C17"}, MustFinish: true, ObsNames: stdObs,
		Doc:   "CallConcurrently with a function that ignores its context (it returns only when a gate opens, after the call is over): (a) a sibling returns E1 at once, or (b) the caller's context is cancelled while a sibling has returned nil (choice): the call returns E1 / context.Canceled without waiting for the function that does not listen; that function still runs exactly once and its context is cancelled",
		Quick: eng.Bounds{PB: 2}, Thorough: eng.Bounds{PB: 3},
		Body: func() {
			bg := context.Background()
			mode := vsched.Choose(2)
			gS := &vsched.Gate{}
			ctx, cancel := context.WithCancel(bg)
			defer cancel()
			f1 := func(fctx context.Context) error {
				vsched.CtrAdd(c17Ran, 1)
				if mode == 0 {
					return errE1
				}
				return nil
			}
			f2 := func(fctx context.Context) error {
				vsched.CtrAdd(c17Ran+4, 1)
				gS.Wait() // does not look at fctx while the call is in progress
				if fctx.Err() == nil {
					fail("C17.ctx-live", "the context given to the straggling function is still live after the call ended")
				}
				return nil
			}
			T("K", func() {
				label("CallConcurrently")
				r := ccall.CallConcurrently(ctx, f1, nil, f2)
				label("")
				want := errE1
				if mode == 1 {
					want = context.Canceled
				}
				if r != want {
					fail("C17.wrong-error", "CallConcurrently returned %v, want %v (mode %d)", r, want, mode)
				}
				if gS.IsOpen() {
					fail("C17.not-returned", "CallConcurrently returned only after the function that ignores its context was let go")
				}
			})
			if mode == 1 {
				T("C", func() { vsched.CtrSet(c17Cancel, 1); cancel() })
			}
			vsched.Settle()
			if vsched.CountParked("CallConcurrently") > 0 {
				fail("C17.not-returned", "a function returned E1 / the caller's context was cancelled (mode %d), but CallConcurrently is still waiting for a function that ignores its context", mode)
			}
			gS.Open()
			vsched.Settle()
			if a, b := vsched.Ctr(c17Ran), vsched.Ctr(c17Ran+4); a != 1 || b != 1 {
				fail("C17.ran-count", "functions ran %d and %d times, want 1 and 1", a, b)
			}
		},
	})
	eng.Register(&eng.Scenario{
		Name: "ccall-0-1", Props: []string{"C17"}, MustFinish: true, ObsNames: stdObs,
		Doc:   "CallConcurrently with 0 and 1 functions (every outcome incl. a nil entry), caller-cancel thread",
		Quick: eng.Bounds{PB: 3}, Thorough: eng.Bounds{PB: 6},
		Body: func() {
			if vsched.Choose(2) == 0 {
				ccallBody(0, true, 6)()
			} else {
				ccallBody(1, true, 6)()
			}
		},
	})
	eng.Register(&eng.Scenario{
		Name: "ccall-2", Props: []string{"C17"}, MustFinish: true, ObsNames: stdObs,
		Doc:   "CallConcurrently with 2 functions, every outcome pair over {nil entry, nil, E1, E2, Canceled, park-until-cancelled, DeadlineExceeded, an error of a non-comparable type}, live caller context",
		Quick: eng.Bounds{PB: 2}, Thorough: eng.Bounds{PB: 4},
		Body: ccallBody(2, false, 8),
	})
	eng.Register(&eng.Scenario{
		Name: "ccall-2c", Props: []string{"C17"}, MustFinish: true, ObsNames: stdObs,
		Doc:   "CallConcurrently with 2 functions and a caller-cancel thread",
		Quick: eng.Bounds{PB: 2}, Thorough: eng.Bounds{PB: 3},
		Body: ccallBody(2, true, 8),
	})
	eng.Register(&eng.Scenario{
		Name: "ccall-3", Props: []string{"C17"}, MustFinish: true, ObsNames: stdObs,
		Doc:   "CallConcurrently with 3 functions, every outcome triple, live caller context",
		Quick: eng.Bounds{PB: 1}, Thorough: eng.Bounds{PB: 2},
		Body: ccallBody(3, false, 8),
	})
}
