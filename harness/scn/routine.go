package scn

import (
	"context"
	"errors"
	"io"
	"time"

	ubackoff "github.com/aperturerobotics/util/backoff"
	"github.com/sirupsen/logrus"

	"github.com/aperturerobotics/util/routine"
	"github.com/aperturerobotics/util/zzverif/vsched"
	"verifharness/eng"
)

type ctxKey struct{}

const (
	rActive    = iota // instances inside the managed function
	rEntered          // instances entered so far (their ctx is in cell[id])
	rCtxTag           // tag of the context last given to SetContext (0 = none)
	rHasRt            // a routine is set
	rState            // last state given to SetState
	rCalls            // controller calls issued
	rRuns             // entries of the erroring routine (retry scenarios)
	rTagsExact        // 1 if every new generation of the routine gets a fresh tag (plain RoutineContainer)
	rCallsDone        // controller calls that have returned
	rExitCbs          // exit-callback invocations
	rRetNil           // instances that returned nil
	rRetErr           // instances that returned errRoutine
	rCbNil            // exit-callback invocations told nil
	rCbErr            // exit-callback invocations told errRoutine
	rTag0      = 20   // +id: routine tag of instance id
	rLeft0     = 60   // +id: instance id has returned
	rClosed0   = 100  // +k: the channel returned by controller call k has closed
	rState0    = 140  // +id: state argument of instance id
	rCtx0      = 180  // +id: tag of the context instance id derives from
	rFree0     = 220  // +id: 1+number of controller calls issued when instance id entered with a live context while no controller call was in progress
)

var errRoutine = errors.New("routine-error")

// instance outcomes
const (
	iUntilCancelled = iota // waits for ctx.Done, then takes two more steps before returning (exit latency)
	iReturnNil
	iReturnErr
	iReturnCanceled // returns context.Canceled by itself although its context is live: an error like any other
)

// instance is the body of every managed function instance.
func instance(ctx context.Context, tag, outcome int, state int) error {
	closedAtEntry := [40]bool{}
	for k := tag + 1; k < 40 && vsched.Ctr(rTagsExact) != 0; k++ {
		closedAtEntry[k] = vsched.Ctr(rClosed0+k) != 0 // sampled at the very entry, before any scheduling point
	}
	free := int64(0)
	if c, d := vsched.Ctr(rCalls), vsched.Ctr(rCallsDone); c == d && vsched.CtxErrQuiet(ctx) == nil {
		free = 1 + c
	}
	done := ctx.Done() // (a scheduling point) before the instance registers itself
	id := int(vsched.CtrAdd(rEntered, 1)) - 1
	if id >= 36 {
		fail("infra.too-many-instances", "more than 36 instances")
		return nil
	}
	// the Done channel is obtained by the instance itself; other threads only look at its
	// closedness through the channel header (no access visible to the race detector)
	vsched.SetCell(id, done)
	if t, ok := ctx.Value(ctxKey{}).(int); ok {
		vsched.CtrSet(rCtx0+id, int64(t))
	}
	vsched.CtrSet(rTag0+id, int64(tag))
	vsched.CtrSet(rState0+id, int64(state))
	if outcome == iUntilCancelled {
		vsched.CtrSet(rFree0+id, free)
	}
	a := vsched.CtrAdd(rActive, 1)
	vsched.Observe(oEnter, int64(id), int64(tag), int64(state))
	if a > 1 {
		fail("C04.overlap", "instance %d (routine %d) entered the managed function while another instance is still executing", id, tag)
	}
	for k := tag + 1; k < 40 && vsched.Ctr(rTagsExact) != 0; k++ {
		if closedAtEntry[k] {
			fail("C04.wait-channel", "an instance of routine %d entered after the channel returned by later call %d had closed", tag, k)
		}
	}
	var err error
	switch outcome {
	case iUntilCancelled:
		<-ctx.Done()
		vsched.Point()
		vsched.Point()
		err = context.Canceled
	case iReturnErr:
		err = errRoutine
	case iReturnCanceled:
		err = context.Canceled
	}
	vsched.CtrAdd(rActive, -1)
	vsched.CtrSet(rLeft0+id, 1)
	switch err {
	case nil:
		vsched.CtrAdd(rRetNil, 1)
	case errRoutine:
		vsched.CtrAdd(rRetErr, 1)
	}
	vsched.Observe(oExit, int64(id), int64(tag), 0)
	return err
}

// watchReturn checks the waitReturn channel of controller call k (routine tag k).
// n is the number of instances that had entered before the call was issued.
func watchReturn(ch <-chan struct{}, k, n int) {
	if ch == nil {
		return
	}
	vsched.GoNamed("", func() {
		<-ch
		for id := 0; id < n; id++ {
			if vsched.Ctr(rLeft0+id) == 0 {
				fail("C04.wait-channel", "channel returned by call %d closed while instance %d of earlier routine %d has not returned", k, id, vsched.Ctr(rTag0+id))
			}
		}
		vsched.CtrSet(rClosed0+k, 1)
	})
}

// liveInstances counts entered instances whose context is still live; ids < before are "old".
func liveInstances(before int) (live, liveOld, lastLive int) {
	n := int(vsched.Ctr(rEntered))
	lastLive = -1
	for id := 0; id < n; id++ {
		if !vsched.ChanClosed(vsched.GetCell(id).(<-chan struct{})) {
			live++
			lastLive = id
			if id < before {
				liveOld++
			}
		}
	}
	return
}

type rcOps struct {
	setRoutine func(tag int) <-chan struct{} // install a fresh routine closure with this tag
	setNil     func() <-chan struct{}        // SetRoutine(nil) / SetStateRoutine(nil)
	waitExited func(ctx context.Context, returnIfNotRunning bool, errCh <-chan error) error
	restart    func() bool
	setContext func(ctx context.Context, restart bool) bool
	clear      func() bool
	setState   func(s int) <-chan struct{}
	getState   func() int
	swapState  func(f func(int) int) int
}

// letters
const (
	lSetRoutine = iota
	lRestart
	lCtxFreshRestart
	lClear
	lCtxSame
	lCtxFresh
	lState1
	lState2
	lState0
	lStateSame
	lSetNil
	lCtxDead  // SetContext(a fresh context that is already cancelled, restart=true)
	lWaitDead // WaitExited with an already-cancelled waiter context: returns context.Canceled, changes nothing
)

var letterNames = []string{"SetRoutine(new)", "RestartRoutine", "SetContext(fresh,true)", "ClearContext", "SetContext(same,false)", "SetContext(fresh,false)", "SetState(1)", "SetState(2)", "SetState(0)", "SetState(same)", "SetRoutine(nil)", "SetContext(fresh but already cancelled,true)", "WaitExited(cancelled ctx)"}

// doLetter issues one controller call and checks the C05 return-time oracle.
func doLetter(o *rcOps, l int, curCtx *context.Context, who string) {
	bg := context.Background()
	before := int(vsched.Ctr(rEntered))
	call := int(vsched.CtrAdd(rCalls, 1))
	vsched.Observe(oOp, int64(l), int64(call), 0)
	supersedes, mustBeZero := true, false
	switch l {
	case lSetRoutine:
		vsched.CtrSet(rHasRt, 1)
		watchReturn(o.setRoutine(call), call, before)
	case lSetNil:
		vsched.CtrSet(rHasRt, 0)
		watchReturn(o.setNil(), call, before)
		mustBeZero = true
	case lRestart:
		o.restart()
	case lCtxFreshRestart, lCtxFresh:
		c := context.WithValue(bg, ctxKey{}, call)
		*curCtx = c
		vsched.CtrSet(rCtxTag, int64(call))
		o.setContext(c, l == lCtxFreshRestart)
	case lCtxDead:
		c, cancel := context.WithCancel(context.WithValue(bg, ctxKey{}, call))
		cancel()
		*curCtx = c
		vsched.CtrSet(rCtxTag, int64(call))
		o.setContext(c, true)
		mustBeZero = true
	case lWaitDead:
		supersedes = false
		c, cancel := context.WithCancel(bg)
		cancel()
		if err := o.waitExited(c, false, nil); err != nil && err != context.Canceled && err != errRoutine {
			fail("C14.waitexited", "WaitExited with a cancelled context returned %v", err)
		}
	case lCtxSame:
		supersedes = false
		if *curCtx != nil {
			o.setContext(*curCtx, false)
		}
	case lClear:
		*curCtx = nil
		vsched.CtrSet(rCtxTag, 0)
		o.clear()
		mustBeZero = true
	case lState1, lState2, lState0:
		s := []int{1, 2, 0}[l-lState1]
		supersedes = int64(s) != vsched.Ctr(rState)
		vsched.CtrSet(rState, int64(s))
		watchReturn(o.setState(s), call, before)
		mustBeZero = s == 0
	case lStateSame:
		supersedes = false
		o.setState(int(vsched.Ctr(rState)))
	}
	vsched.CtrAdd(rCallsDone, 1)
	if who != "" {
		return // concurrent controllers: return-time oracle needs a single controller
	}
	live, liveOld, _ := liveInstances(before)
	if supersedes && liveOld > 0 {
		fail("C05.superseded-live", "%s returned but %d instance(s) that entered before the call still have a live context", letterNames[l], liveOld)
	}
	if live > 1 {
		fail("C05.two-live", "%d instances with a live context after %s returned", live, letterNames[l])
	}
	if mustBeZero && live > 0 {
		fail("C05.live-after-clear", "%d instance(s) with a live context after %s returned", live, letterNames[l])
	}
}

// finalRoutineOracle: once quiet, at most one live instance, and only if ctx+routine+state are set;
// it derives from the current context and has the latest state.
func finalRoutineOracle(o *rcOps, stateVariant bool) {
	vsched.Settle()
	live, _, last := liveInstances(0)
	if live > 1 {
		fail("C05.two-live", "%d instances with a live context once the container is quiet", live)
		return
	}
	wantPossible := vsched.Ctr(rCtxTag) != 0 && vsched.Ctr(rHasRt) != 0
	st := 0
	if stateVariant {
		st = o.getState()
		wantPossible = wantPossible && st != 0
	}
	if live == 1 {
		if !wantPossible {
			fail("C05.live-without-reason", "an instance with a live context exists although the container has ctx-tag=%d routine=%d state=%d", vsched.Ctr(rCtxTag), vsched.Ctr(rHasRt), st)
			return
		}
		if tag := vsched.Ctr(rCtx0 + last); tag != vsched.Ctr(rCtxTag) {
			fail("C05.stale-context", "the live instance derives from context %d but the container's current context is %d", tag, vsched.Ctr(rCtxTag))
		}
		if stateVariant && int(vsched.Ctr(rState0+last)) != st {
			fail("C05.stale-state", "the live instance was given state %d but GetState() is %d", vsched.Ctr(rState0+last), st)
		}
		if vsched.Ctr(rLeft0+last) != 0 {
			// it returned by itself; fine
		}
	}
}

// storedStateOracle (single controller): GetState returns the state most recently stored.
func storedStateOracle(o *rcOps) {
	if o.getState == nil {
		return
	}
	if got, want := o.getState(), int(vsched.Ctr(rState)); got != want {
		fail("C05.stale-state", "GetState() = %d but the state most recently stored by the controller is %d", got, want)
	}
}

// spuriousCancelOracle (C14, single controller, instances that run until cancelled): an instance that
// entered with a live context while no controller call was in progress, and after whose entry no
// controller call was issued, can only have been cancelled by the container on its own (e.g. by a
// stale retry timer): a running instance is restarted by nothing but a controller call.
func spuriousCancelOracle() {
	n := int(vsched.Ctr(rEntered))
	for id := 0; id < n; id++ {
		f := vsched.Ctr(rFree0 + id)
		if f == 0 || f-1 != vsched.Ctr(rCalls) {
			continue
		}
		if vsched.ChanClosed(vsched.GetCell(id).(<-chan struct{})) {
			fail("C14.spurious-restart", "instance %d entered with a live context after the last controller call had returned, and its context was cancelled although no controller call was issued since", id)
		}
	}
}

// exitObs: every container under test has an exit callback (it runs after the lock is dropped).
func exitObs() routine.Option {
	return routine.WithExitCb(func(err error) {
		vsched.Observe(oCb, 3, errCode(err), 0)
		// an exit is reported with the error that instance returned, at most once per callback
		switch err {
		case nil:
			if n, m := vsched.CtrAdd(rCbNil, 1), vsched.Ctr(rRetNil); n > m {
				fail("C14.exit-callback", "the exit callback was told nil (success) %d time(s) but only %d instance(s) returned nil", n, m)
			}
		case errRoutine:
			if n, m := vsched.CtrAdd(rCbErr, 1), vsched.Ctr(rRetErr); n > m {
				fail("C14.exit-callback", "the exit callback was told the routine's error %d time(s) but only %d instance(s) returned it", n, m)
			}
		}
	})
}

func newRC(outcomes []int, opts ...routine.Option) *rcOps {
	opts = append(opts, exitObs())
	k := routine.NewRoutineContainer(opts...)
	vsched.CtrSet(rTagsExact, 1)
	return &rcOps{
		setRoutine: func(tag int) <-chan struct{} {
			ch, _ := k.SetRoutine(func(ctx context.Context) error {
				return instance(ctx, tag, outcomes[vsched.Choose(len(outcomes))], 0)
			})
			return ch
		},
		setNil:     func() <-chan struct{} { ch, _ := k.SetRoutine(nil); return ch },
		waitExited: k.WaitExited,
		restart:    k.RestartRoutine,
		setContext: k.SetContext,
		clear:      k.ClearContext,
	}
}

func newSRC(outcomes []int, opts ...routine.Option) *rcOps {
	opts = append(opts, exitObs())
	k := routine.NewStateRoutineContainer[int](func(a, b int) bool { return a == b }, opts...)
	return &rcOps{
		setRoutine: func(tag int) <-chan struct{} {
			ch, _, _ := k.SetStateRoutine(func(ctx context.Context, st int) error {
				return instance(ctx, tag, outcomes[vsched.Choose(len(outcomes))], st)
			})
			return ch
		},
		setNil:     func() <-chan struct{} { ch, _, _ := k.SetStateRoutine(nil); return ch },
		waitExited: k.WaitExited,
		restart:    k.RestartRoutine,
		setContext: k.SetContext,
		clear:      k.ClearContext,
		setState: func(s int) <-chan struct{} {
			ch, _, _, _ := k.SetState(s)
			return ch
		},
		getState: k.GetState,
		swapState: func(f func(int) int) int {
			n, _, _, _, _ := k.SwapValue(f)
			return n
		},
	}
}

// routineWord: a single controller issues every word of the given length over the alphabet.
func routineWord(state bool, alphabet []int, length int, outcomes []int) func() {
	return routineWordOpt(state, alphabet, length, outcomes, false)
}

// routineWordOpt: with settle, the controller may (choice) wait for quiescence before each letter,
// so that chains "old instance has returned, its replacement is inside the function" are reached
// without spending schedule deviations on them.
func routineWordOpt(state bool, alphabet []int, length int, outcomes []int, settle bool) func() {
	return func() {
		var o *rcOps
		if state {
			o = newSRC(outcomes)
		} else {
			o = newRC(outcomes)
		}
		var cur context.Context
		doLetter(o, lCtxFresh, &cur, "")
		if state {
			doLetter(o, lState1, &cur, "")
		}
		doLetter(o, lSetRoutine, &cur, "")
		if vsched.Choose(2) == 1 {
			vsched.Settle() // the first instance is inside the managed function when the word starts
		}
		for i := 0; i < length; i++ {
			if settle && i > 0 && vsched.Choose(2) == 1 {
				vsched.Settle()
			}
			doLetter(o, alphabet[vsched.Choose(len(alphabet))], &cur, "")
		}
		if state {
			storedStateOracle(o)
		}
		finalRoutineOracle(o, state)
		spuriousCancelOracle()
		o.clear()
		vsched.Settle()
		if a := vsched.Ctr(rActive); a != 0 {
			fail("C05.live-after-clear", "%d instance(s) still executing after ClearContext and quiescence", a)
		}
	}
}

// routineTwo: two controllers concurrently (contexts by T1, states / routines by T2).
func routineTwo(state bool, w1, w2 []int, outcomes []int) func() {
	return func() {
		var o *rcOps
		if state {
			o = newSRC(outcomes)
		} else {
			o = newRC(outcomes)
		}
		var cur1 context.Context
		var cur2 context.Context
		doLetter(o, lSetRoutine, &cur1, "init")
		T("T1", func() {
			for _, l := range w1 {
				doLetter(o, l, &cur1, "T1")
			}
		})
		T("T2", func() {
			for _, l := range w2 {
				doLetter(o, l, &cur2, "T2")
			}
		})
		finalRoutineOracle(o, state)
		o.clear()
		vsched.Settle()
		if a := vsched.Ctr(rActive); a != 0 {
			fail("C05.live-after-clear", "%d instance(s) still executing after ClearContext and quiescence", a)
		}
	}
}

// constBackoff is a deterministic cenkalti BackOff: constant 1s, optionally stopping after n.
// constBackoff: like cenkalti's policies it is not safe for concurrent use (plain field): the library
// calls it under its lock; the race build attributes an unsynchronized pair of calls to the library.
type constBackoff struct {
	stopAfter int
	plain     int
}

func (b *constBackoff) NextBackOff() time.Duration {
	b.plain++
	n := int(vsched.CtrAdd(200, 1))
	vsched.Observe(oCb, 1, int64(n), 0)
	if b.stopAfter > 0 && n > b.stopAfter {
		return -1
	}
	return time.Second
}

func (b *constBackoff) Reset() {
	b.plain = 0
	vsched.CtrSet(200, 0)
	vsched.Observe(oCb, 0, 0, 0)
}

func init() {
	basic := []int{lSetRoutine, lRestart, lCtxFreshRestart, lClear, lCtxSame}
	eng.Register(&eng.Scenario{
		Name: "routine-word3", Props: []string{"C04", "C05", "C14"}, ObsNames: stdObs,
		Doc:   "RoutineContainer: ctx+routine set, then every word of length 3 over {SetRoutine(new), RestartRoutine, SetContext(fresh,true), ClearContext, SetContext(same,false)}; instances run until cancelled and return two steps later; overlap, wait-channel and supersession oracles",
		Quick: eng.Bounds{PB: 2, Delay: true}, Thorough: eng.Bounds{PB: 3, Delay: true},
		Body: routineWord(false, basic, 3, []int{iUntilCancelled}),
	})
	eng.Register(&eng.Scenario{
		Name: "routine-word4", Props: []string{"C04", "C05"}, ObsNames: stdObs,
		Doc:   "RoutineContainer: as routine-word3 with words of length 4 over {SetRoutine(new), SetContext(fresh,false), ClearContext, RestartRoutine} (e.g. ClearContext; SetRoutine; SetRoutine; SetContext while the first instance is still returning)",
		Quick: eng.Bounds{PB: 1, Delay: true}, Thorough: eng.Bounds{PB: 3, Delay: true},
		Body: routineWord(false, []int{lSetRoutine, lCtxFresh, lClear, lRestart}, 4, []int{iUntilCancelled}),
	})
	eng.Register(&eng.Scenario{
		Name: "routine-word2-outcomes", Props: []string{"C04", "C05", "C14"}, ObsNames: stdObs,
		Doc:   "RoutineContainer: words of length 2, each instance's outcome chosen from {run until cancelled, return nil, return error}",
		Quick: eng.Bounds{PB: 1}, Thorough: eng.Bounds{PB: 2},
		Body: routineWord(false, append(basic, lCtxFresh), 2, []int{iUntilCancelled, iReturnNil, iReturnErr}),
	})
	stateAlpha := []int{lSetRoutine, lRestart, lCtxFreshRestart, lClear, lState1, lState2, lState0, lStateSame}
	eng.Register(&eng.Scenario{
		Name: "sroutine-word3", Props: []string{"C04", "C05"}, ObsNames: stdObs,
		Doc:   "StateRoutineContainer: ctx, state 1 and routine set, then every word of length 3 over {SetStateRoutine(new), RestartRoutine, SetContext(fresh,true), ClearContext, SetState(1|2|0|same)}",
		Quick: eng.Bounds{PB: 1, Delay: true}, Thorough: eng.Bounds{PB: 2, Delay: true},
		Body: routineWord(true, stateAlpha, 3, []int{iUntilCancelled}),
	})
	eng.Register(&eng.Scenario{
		Name: "sroutine-word3-settle", Props: []string{"C04", "C05", "C14"}, ObsNames: stdObs,
		Doc:   "StateRoutineContainer: as sroutine-word3, and before the 2nd and 3rd letter the controller optionally (choice) waits for quiescence (the superseded instance has returned and its replacement is inside the function)",
		Quick: eng.Bounds{PB: 1, Delay: true}, Thorough: eng.Bounds{PB: 2, Delay: true},
		Body: routineWordOpt(true, stateAlpha, 3, []int{iUntilCancelled}, true),
	})
	eng.Register(&eng.Scenario{
		Name: "routine-word3-settle", Props: []string{"C04", "C05", "C14"}, ObsNames: stdObs,
		Doc:   "RoutineContainer: as routine-word3 over {SetRoutine(new), SetRoutine(nil), RestartRoutine, SetContext(fresh,true), ClearContext, SetContext(fresh,false), SetContext(an already-cancelled context,true)}, optionally waiting for quiescence before the 2nd and 3rd letter",
		Quick: eng.Bounds{PB: 1, Delay: true}, Thorough: eng.Bounds{PB: 2, Delay: true},
		Body: routineWordOpt(false, []int{lSetRoutine, lSetNil, lRestart, lCtxFreshRestart, lClear, lCtxFresh, lCtxDead}, 3, []int{iUntilCancelled}, true),
	})
	eng.Register(&eng.Scenario{
		Name: "routine-word2-settle", Props: []string{"C04", "C05", "C14"}, ObsNames: stdObs,
		Doc:   "RoutineContainer: as routine-word3-settle with words of length 2 over the alphabet extended by WaitExited(already-cancelled waiter context), and a deeper schedule bound",
		Quick: eng.Bounds{PB: 2, Delay: true}, Thorough: eng.Bounds{PB: 3, Delay: true},
		Body: routineWordOpt(false, []int{lSetRoutine, lSetNil, lRestart, lCtxFreshRestart, lClear, lCtxFresh, lCtxDead, lWaitDead}, 2, []int{iUntilCancelled}, true),
	})
	eng.Register(&eng.Scenario{
		Name: "sroutine-bare-word4", Props: []string{"C04", "C05", "C14"}, ObsNames: stdObs,
		Doc:   "StateRoutineContainer starting with nothing set (no context, no routine, empty state): every word of length 4 over {SetState(1), SetState(2), SetState(0), SetStateRoutine(new), SetStateRoutine(nil), SetContext(fresh,false), ClearContext} - i.e. every order of supplying the three ingredients, including states stored and cleared before any routine exists; survivor only if context, routine and non-empty state are all set, and it was given GetState()",
		Quick: eng.Bounds{PB: 1, Delay: true}, Thorough: eng.Bounds{PB: 2, Delay: true},
		Body: func() {
			o := newSRC([]int{iUntilCancelled})
			var cur context.Context
			alpha := []int{lState1, lState2, lState0, lSetRoutine, lSetNil, lCtxFresh, lClear}
			for i := 0; i < 4; i++ {
				doLetter(o, alpha[vsched.Choose(len(alpha))], &cur, "")
			}
			storedStateOracle(o)
			finalRoutineOracle(o, true)
			spuriousCancelOracle()
			o.clear()
			vsched.Settle()
			if a := vsched.Ctr(rActive); a != 0 {
				fail("C05.live-after-clear", "%d instance(s) still executing after ClearContext and quiescence", a)
			}
		},
	})
	eng.Register(&eng.Scenario{
		Name: "sroutine-word2", Props: []string{"C04", "C05", "C14"}, ObsNames: stdObs,
		Doc:   "StateRoutineContainer: as sroutine-word3 with words of length 2 over the alphabet extended by WaitExited(already-cancelled waiter context) and SetStateRoutine(nil), and a deeper schedule bound",
		Quick: eng.Bounds{PB: 2, Delay: true}, Thorough: eng.Bounds{PB: 4, Delay: true},
		Body: routineWord(true, append(append([]int{}, stateAlpha...), lWaitDead, lSetNil), 2, []int{iUntilCancelled}),
	})
	eng.Register(&eng.Scenario{
		Name: "sroutine-two", Props: []string{"C05", "C04"}, ObsNames: stdObs,
		Doc:   "StateRoutineContainer, two concurrent controllers: T1 = SetContext(c1); ClearContext; SetContext(c2)  ||  T2 = SetState(1); SetState(2); at quiescence the survivor derives from c2 and has GetState()",
		Quick: eng.Bounds{PB: 2}, Thorough: eng.Bounds{PB: 3},
		Body: routineTwo(true, []int{lCtxFresh, lClear, lCtxFresh}, []int{lState1, lState2}, []int{iUntilCancelled}),
	})
	eng.Register(&eng.Scenario{
		Name: "sroutine-two-b", Props: []string{"C05", "C04"}, ObsNames: stdObs,
		Doc:   "StateRoutineContainer, two concurrent controllers: T1 = SetContext(c1); SetContext(c2,true)  ||  T2 = SetState(1); SetState(0); SetState(2)",
		Quick: eng.Bounds{PB: 2}, Thorough: eng.Bounds{PB: 3},
		Body: routineTwo(true, []int{lCtxFresh, lCtxFreshRestart}, []int{lState1, lState0, lState2}, []int{iUntilCancelled}),
	})
	eng.Register(&eng.Scenario{
		Name: "sroutine-setroutine", Props: []string{"C05", "C04"}, MustFinish: true, ObsNames: stdObs,
		Doc:   "StateRoutineContainer with context, state 1 and a routine: T1 = SetStateRoutine(new)  ||  T2 = SetState(2) or SetContext(fresh) (choice)  ||  T3 = RestartRoutine: at quiescence exactly one live instance, with the current context and GetState()",
		Quick: eng.Bounds{PB: 2, Delay: true}, Thorough: eng.Bounds{PB: 3, Delay: true},
		Body: func() {
			o := newSRC([]int{iUntilCancelled})
			var cur, cur2 context.Context
			doLetter(o, lCtxFresh, &cur, "init")
			doLetter(o, lState1, &cur, "init")
			doLetter(o, lSetRoutine, &cur, "init")
			if vsched.Choose(2) == 1 {
				vsched.Settle()
			}
			second := []int{lState2, lCtxFresh}[vsched.Choose(2)]
			T("T1", func() { doLetter(o, lSetRoutine, &cur2, "T1") })
			T("T2", func() { doLetter(o, second, &cur, "T2") })
			T("T3", func() { doLetter(o, lRestart, &cur2, "T3") })
			vsched.Settle()
			live, _, _ := liveInstances(0)
			if live != 1 {
				fail("C05.two-live", "%d instances with a live context at quiescence, want exactly 1 (context, routine and state are all set)", live)
			}
			finalRoutineOracle(o, true)
			o.clear()
			vsched.Settle()
		},
	})
	eng.Register(&eng.Scenario{
		Name: "sroutine-getstate", Props: []string{"C05", "C04"}, MustFinish: true, ObsNames: stdObs,
		Doc:   "StateRoutineContainer: T1 = SetState(1); SetState(2)  ||  T2 = GetState x3 (never goes backwards)  ||  T3 = SwapValue(+10); context set beforehand: final state is 2 or 12 and the survivor was given GetState()",
		Quick: eng.Bounds{PB: 3, Delay: true}, Thorough: eng.Bounds{PB: 4, Delay: true},
		Body: func() {
			o := newSRC([]int{iUntilCancelled})
			var cur context.Context
			doLetter(o, lSetRoutine, &cur, "init")
			doLetter(o, lCtxFresh, &cur, "init")
			T("T1", func() {
				doLetter(o, lState1, &cur, "T1")
				doLetter(o, lState2, &cur, "T1")
			})
			T("T2", func() {
				rank := func(s int) int { return s % 10 }
				last := 0
				for i := 0; i < 3; i++ {
					s := o.getState()
					vsched.Observe(oVal, int64(s), 0, 0)
					if s != 0 && s != 1 && s != 2 && s != 10 && s != 11 && s != 12 {
						fail("C05.bogus-state", "GetState returned %d", s)
					}
					if rank(s) < rank(last) && !(s < 10 && last >= 10) {
						fail("C05.state-went-back", "GetState returned %d after %d", s, last)
					}
					last = s
				}
			})
			T("T3", func() {
				n := o.swapState(func(v int) int { return v + 10 })
				vsched.Observe(oVal, int64(n), 1, 0)
			})
			vsched.Settle()
			vsched.CtrSet(rState, int64(o.getState()))
			if s := o.getState(); s != 2 && s != 12 {
				fail("C05.stale-state", "final GetState()=%d, want 2 or 12", s)
			}
			finalRoutineOracle(o, true)
			o.clear()
			vsched.Settle()
		},
	})
	eng.Register(&eng.Scenario{
		Name: "routine-two", Props: []string{"C05", "C04"}, ObsNames: stdObs,
		Doc:   "RoutineContainer, two concurrent controllers: T1 = SetContext(c1); ClearContext; SetContext(c2)  ||  T2 = SetRoutine(new); RestartRoutine",
		Quick: eng.Bounds{PB: 3, Delay: true}, Thorough: eng.Bounds{PB: 5, Delay: true},
		Body: routineTwo(false, []int{lCtxFresh, lClear, lCtxFresh}, []int{lSetRoutine, lRestart}, []int{iUntilCancelled}),
	})
	eng.Register(&eng.Scenario{
		Name: "routine-setroutine-race", Props: []string{"C05", "C04"}, ObsNames: stdObs,
		Doc:   "RoutineContainer with a context, two concurrent controllers: T1 = SetRoutine(new); SetRoutine(new)  ||  T2 = SetRoutine(new): at quiescence exactly one instance is live (the container has a context and a routine), nothing overlaps, and after ClearContext nothing is left executing",
		Quick: eng.Bounds{PB: 2, Delay: true}, Thorough: eng.Bounds{PB: 4, Delay: true},
		Body: func() {
			o := newRC([]int{iUntilCancelled})
			vsched.CtrSet(rTagsExact, 0) // (two concurrent controllers: the order of their calls is not known to the harness)
			var cur, cur2 context.Context
			doLetter(o, lCtxFresh, &cur, "init")
			T("T1", func() {
				doLetter(o, lSetRoutine, &cur2, "T1")
				doLetter(o, lSetRoutine, &cur2, "T1")
			})
			T("T2", func() { doLetter(o, lSetRoutine, &cur2, "T2") })
			vsched.Settle()
			if live, _, _ := liveInstances(0); live != 1 {
				fail("C05.two-live", "%d instances with a live context at quiescence after concurrent SetRoutine calls, want exactly 1", live)
			}
			o.clear()
			vsched.Settle()
			if a := vsched.Ctr(rActive); a != 0 {
				fail("C05.live-after-clear", "%d instance(s) still executing after ClearContext and quiescence", a)
			}
		},
	})
	eng.Register(&eng.Scenario{
		Name: "routine-retry", Props: []string{"C04", "C05", "C14"}, ObsNames: stdObs,
		Doc:   "RoutineContainer with retry back-off (auto timers: the retry fires at any time): the first instance returns an error, later ones run until cancelled; controller issues words of length 2 over {SetRoutine(new), RestartRoutine, SetContext(fresh,true|false), SetContext(same,false), ClearContext}; the survivor must derive from the current context also when it was started by the retry timer",
		Quick: eng.Bounds{PB: 1}, Thorough: eng.Bounds{PB: 2},
		Body: func() {
			o := newRCRetry()
			var cur context.Context
			doLetter(o, lCtxFresh, &cur, "")
			doLetter(o, lSetRoutine, &cur, "")
			alpha := []int{lSetRoutine, lRestart, lCtxFreshRestart, lClear, lCtxFresh, lCtxSame}
			for i := 0; i < 2; i++ {
				doLetter(o, alpha[vsched.Choose(len(alpha))], &cur, "")
			}
			finalRoutineOracle(o, false)
			o.clear()
			vsched.Settle()
			if a := vsched.Ctr(rActive); a != 0 {
				fail("C05.live-after-clear", "%d instance(s) still executing after ClearContext and quiescence", a)
			}
		},
	})
	extCancel := func(state bool) func() {
		return func() {
			var o *rcOps
			if state {
				o = newSRC([]int{iUntilCancelled})
			} else {
				o = newRC([]int{iUntilCancelled})
			}
			root, cancelRoot := context.WithCancel(context.WithValue(context.Background(), ctxKey{}, 1))
			defer cancelRoot()
			var cur context.Context = root
			vsched.CtrAdd(rCalls, 1)
			vsched.CtrSet(rCtxTag, 1)
			o.setContext(root, false)
			vsched.CtrAdd(rCallsDone, 1)
			if state {
				doLetter(o, lState1, &cur, "")
			}
			doLetter(o, lSetRoutine, &cur, "")
			vsched.Settle()          // the first instance is inside the managed function
			vsched.CtrAdd(rCalls, 1) // (counts as a controller action for the spurious-restart oracle)
			cancelRoot()
			vsched.CtrAdd(rCallsDone, 1)
			alpha := []int{lSetRoutine, lRestart, lCtxFreshRestart, lCtxFresh, lCtxSame, lWaitDead}
			if state {
				alpha = append(alpha, lState2)
			}
			for i := 0; i < 2; i++ {
				doLetter(o, alpha[vsched.Choose(len(alpha))], &cur, "")
			}
			finalRoutineOracle(o, state)
			spuriousCancelOracle()
			o.clear()
			vsched.Settle()
			if a := vsched.Ctr(rActive); a != 0 {
				fail("C05.live-after-clear", "%d instance(s) still executing after ClearContext and quiescence", a)
			}
		}
	}
	eng.Register(&eng.Scenario{
		Name: "routine-deadroot-setroutine", Props: []string{"C14", "C05"}, ObsNames: stdObs, Manual: true,
		Doc:   "RoutineContainer / StateRoutineContainer (choice) given a context while nothing is installed; the context is then cancelled by its owner from outside; only now a routine is installed (SetRoutine / SetState): nothing can run under the dead context; a following SetContext(fresh, restart=false) runs the routine - it has not failed, it has never run",
		Quick: eng.Bounds{PB: 2}, Thorough: eng.Bounds{PB: 3},
		Body: func() {
			state := vsched.Choose(2) == 1
			body := func(ctx context.Context) error { return instance(ctx, 1, iUntilCancelled, 0) }
			root, cancelRoot := context.WithCancel(context.WithValue(context.Background(), ctxKey{}, 1))
			defer cancelRoot()
			var setContext func(ctx context.Context, restart bool) bool
			var clear func() bool
			var install func()
			if state {
				k := routine.NewStateRoutineContainer[int](nil, exitObs())
				k.SetStateRoutine(func(ctx context.Context, st int) error { return body(ctx) })
				setContext, clear = k.SetContext, k.ClearContext
				install = func() { k.SetState(1) }
			} else {
				k := routine.NewRoutineContainer(exitObs())
				setContext, clear = k.SetContext, k.ClearContext
				install = func() { k.SetRoutine(body) }
			}
			setContext(root, false)
			cancelRoot()
			install()
			vsched.Settle()
			if live, _, _ := liveInstances(0); live != 0 {
				fail("C05.live-without-reason", "%d instance(s) live although the only context the container was given has been cancelled", live)
			}
			setContext(context.WithValue(context.Background(), ctxKey{}, 2), false)
			vsched.Settle()
			if live, _, _ := liveInstances(0); live != 1 {
				fail("C14.missing-run", "a routine installed under a root context that had been cancelled from outside was not run by the following SetContext(fresh, restart=false): %d live instance(s), %d entries in total", live, vsched.Ctr(rEntered))
			}
			clear()
			vsched.Settle()
		},
	})
	eng.Register(&eng.Scenario{
		Name: "routine-extcancel-result", Props: []string{"C14"}, ObsNames: stdObs, Manual: true,
		Doc:   "RoutineContainer / StateRoutineContainer, with or without retry back-off (choices): the root context is cancelled by its owner from outside while the instance is running; the instance then returns nil or an error of its own (choice): that result - not context.Canceled - is the exit status: each exit callback is told it once, and a following SetContext(fresh, restart=true) runs the routine again only if it had returned an error",
		Quick: eng.Bounds{PB: 2}, Thorough: eng.Bounds{PB: 3},
		Body: func() {
			state := vsched.Choose(2) == 1
			retNil := vsched.Choose(2) == 1
			var opts []routine.Option
			if vsched.Choose(2) == 1 {
				opts = append(opts, routine.WithBackoff(&constBackoff{}))
			}
			const cbNil, cbErr, cbOther = 240, 241, 242
			opts = append(opts, routine.WithExitCb(func(err error) {
				switch err {
				case nil:
					vsched.CtrAdd(cbNil, 1)
				case errRoutine:
					vsched.CtrAdd(cbErr, 1)
				default:
					vsched.CtrAdd(cbOther, 1)
				}
			}))
			body := func(ctx context.Context) error {
				first := vsched.CtrAdd(rRuns, 1) == 1
				vsched.CtrAdd(rActive, 1)
				<-ctx.Done()
				vsched.CtrAdd(rActive, -1)
				if !first {
					return context.Canceled
				}
				if retNil {
					return nil // (cleaned up successfully after being told to stop)
				}
				return errRoutine
			}
			root, cancelRoot := context.WithCancel(context.WithValue(context.Background(), ctxKey{}, 1))
			defer cancelRoot()
			var setContext func(ctx context.Context, restart bool) bool
			var clear func() bool
			if state {
				k := routine.NewStateRoutineContainer[int](nil, opts...)
				k.SetStateRoutine(func(ctx context.Context, st int) error { return body(ctx) })
				k.SetState(1)
				setContext, clear = k.SetContext, k.ClearContext
			} else {
				k := routine.NewRoutineContainer(opts...)
				k.SetRoutine(body)
				setContext, clear = k.SetContext, k.ClearContext
			}
			setContext(root, false)
			vsched.Settle() // the instance is inside the function
			cancelRoot()
			vsched.Settle() // it has returned
			wantNil, wantErr := int64(0), int64(1)
			if retNil {
				wantNil, wantErr = 1, 0
			}
			if n, e, o := vsched.Ctr(cbNil), vsched.Ctr(cbErr), vsched.Ctr(cbOther); n != wantNil || e != wantErr || o != 0 {
				fail("C14.exit-callback", "the instance returned nil=%v after the root context was cancelled from outside: the exit callback was told nil %d, its error %d, something else (context.Canceled) %d time(s)", retNil, n, e, o)
				return
			}
			setContext(context.WithValue(context.Background(), ctxKey{}, 2), true)
			vsched.Settle()
			wantRuns := int64(2)
			if retNil {
				wantRuns = 1 // a routine that returned nil is complete: restart=true only re-runs failed ones
			}
			if r := vsched.Ctr(rRuns); r != wantRuns {
				oracle := "C14.extra-run"
				if r < wantRuns {
					oracle = "C14.missing-run"
				}
				fail(oracle, "the instance returned nil=%v after an outside cancellation; after SetContext(fresh, restart=true) the routine has run %d time(s) in total, want %d", retNil, r, wantRuns)
			}
			clear()
			vsched.Settle()
		},
	})
	eng.Register(&eng.Scenario{
		Name: "routine-extcancel", Props: []string{"C04", "C05", "C14"}, ObsNames: stdObs,
		Doc:   "RoutineContainer whose context is cancelled by its owner from outside (not through SetContext/ClearContext) while the instance is inside the function and slow to return; then every word of length 2 over {SetRoutine(new), RestartRoutine, SetContext(fresh,true|false), SetContext(same,false), WaitExited(cancelled ctx)}",
		Quick: eng.Bounds{PB: 2, Delay: true}, Thorough: eng.Bounds{PB: 3, Delay: true},
		Body: extCancel(false),
	})
	eng.Register(&eng.Scenario{
		Name: "sroutine-extcancel", Props: []string{"C04", "C05", "C14"}, ObsNames: stdObs,
		Doc:   "StateRoutineContainer: as routine-extcancel, alphabet extended by SetState(2)",
		Quick: eng.Bounds{PB: 2, Delay: true}, Thorough: eng.Bounds{PB: 3, Delay: true},
		Body: extCancel(true),
	})
	eng.Register(&eng.Scenario{
		Name: "sroutine-odd-compare", Props: []string{"C05"}, ObsNames: stdObs,
		Doc:   "StateRoutineContainer with a compare function that is not reflexive (never equal, or equal only for two non-zero states; choice): SetState(1) runs the routine, SetState(0) (the empty state) stops it whatever the compare function says about zero values: once quiet no instance is live while the state is empty; SetState(2) runs it again with 2",
		Quick: eng.Bounds{PB: 2}, Thorough: eng.Bounds{PB: 3},
		Body: func() {
			cmp := []func(a, b int) bool{
				func(a, b int) bool { return false },
				func(a, b int) bool { return a != 0 && b != 0 && a == b },
			}[vsched.Choose(2)]
			k := routine.NewStateRoutineContainer[int](cmp, exitObs())
			k.SetStateRoutine(func(ctx context.Context, st int) error { return instance(ctx, 1, iUntilCancelled, st) })
			k.SetContext(context.WithValue(context.Background(), ctxKey{}, 1), false)
			k.SetState(1)
			vsched.Settle()
			if live, _, _ := liveInstances(0); live != 1 {
				fail("C05.live-without-reason", "after SetState(1): %d live instances, want 1", live)
				return
			}
			k.SetState(0)
			vsched.Settle()
			if live, _, _ := liveInstances(0); live != 0 {
				fail("C05.live-without-reason", "after SetState(0) (the empty state): %d instance(s) with a live context although the container has no state", live)
				return
			}
			k.SetState(2)
			vsched.Settle()
			live, _, last := liveInstances(0)
			if live != 1 || vsched.Ctr(rState0+last) != 2 {
				fail("C05.stale-state", "after SetState(2): %d live instance(s), the last one was given state %d", live, vsched.Ctr(rState0+last))
			}
			k.ClearContext()
			vsched.Settle()
		},
	})
	eng.Register(&eng.Scenario{
		Name: "sroutine-swap-equiv", Props: []string{"C14", "C05"}, ObsNames: stdObs,
		Doc:   "StateRoutineContainer with a compare function coarser than == (x == y mod 10): the instance returns by itself (nil or error, choice); SwapValue / SetState to an equivalent state (1 -> 11) is not a new state: nothing is run again and GetState stays 1; SwapValue / SetState to a different state (2) runs the routine again with 2",
		Quick: eng.Bounds{PB: 2}, Thorough: eng.Bounds{PB: 3},
		Body: func() {
			first := []int{iReturnNil, iReturnErr}[vsched.Choose(2)]
			viaSwap := vsched.Choose(2) == 1
			k := routine.NewStateRoutineContainer[int](func(a, b int) bool { return a%10 == b%10 })
			k.SetStateRoutine(func(ctx context.Context, st int) error {
				out := iUntilCancelled
				if vsched.CtrAdd(rRuns, 1) == 1 {
					out = first
				}
				return instance(ctx, 1, out, st)
			})
			k.SetContext(context.WithValue(context.Background(), ctxKey{}, 1), false)
			k.SetState(1)
			vsched.Settle() // the first instance has returned
			set := func(v int) {
				if viaSwap {
					k.SwapValue(func(int) int { return v })
				} else {
					k.SetState(v)
				}
			}
			set(11)
			vsched.Settle()
			if r := vsched.Ctr(rRuns); r != 1 {
				fail("C14.extra-run", "the routine had returned and was given an equivalent state (1 -> 11 under the container's compare function): it ran %d times, want 1", r)
			}
			if st := k.GetState(); st != 1 {
				fail("C05.stale-state", "GetState() = %d after storing an equivalent state, want the stored 1", st)
			}
			set(2)
			vsched.Settle()
			live, _, last := liveInstances(0)
			if vsched.Ctr(rRuns) != 2 || live != 1 || vsched.Ctr(rState0+last) != 2 {
				fail("C14.retry-lost", "a new state (2) was set: runs=%d live=%d, want a second run holding state 2", vsched.Ctr(rRuns), live)
			}
			k.ClearContext()
			vsched.Settle()
		},
	})
	eng.Register(&eng.Scenario{
		Name: "routine-shared-option", Props: []string{"C14"}, ObsNames: stdObs, Manual: true,
		Doc:   "One WithRetry(exponential config, initial interval 50ms, multiplier 2) option value used to build two RoutineContainers: container A fails three times in a row (its retry intervals grow 50, 100, 200 ms), then container B fails for the first time: B is retried after ITS first back-off interval (50 ms) - the two containers do not share back-off state",
		Quick: eng.Bounds{PB: 1}, Thorough: eng.Bounds{PB: 2},
		Body: func() {
			conf := &ubackoff.Backoff{BackoffKind: ubackoff.BackoffKind_BackoffKind_EXPONENTIAL, Exponential: &ubackoff.Exponential{InitialInterval: 50, Multiplier: 2, MaxInterval: 10000}}
			opt := routine.WithRetry(conf)
			mk := func(failures int64, runsCtr int) *routine.RoutineContainer {
				k := routine.NewRoutineContainer(opt)
				k.SetRoutine(func(ctx context.Context) error {
					if vsched.CtrAdd(runsCtr, 1) <= failures {
						return errRoutine
					}
					<-ctx.Done()
					return context.Canceled
				})
				return k
			}
			const runsA, runsB = 230, 231
			a := mk(3, runsA)
			a.SetContext(context.Background(), false)
			var durs []int64
			for i := 0; i < 3; i++ {
				vsched.Settle() // A failed; its retry timer is armed (manual timers)
				durs = append(durs, vsched.LastTimerDur()/1e6)
				if !vsched.FireEarliest() {
					fail("C14.retry-lost", "container A: no retry timer armed after failure %d", i+1)
					return
				}
			}
			vsched.Settle()
			if durs[0] != 50 || durs[1] != 100 || durs[2] != 200 {
				fail("C14.backoff-interval", "container A was retried after %v ms, want [50 100 200]", durs)
			}
			b := mk(1, runsB)
			b.SetContext(context.Background(), false)
			vsched.Settle()
			if d := vsched.LastTimerDur() / 1e6; d != 50 {
				fail("C14.backoff-interval", "container B failed for the first time but its retry is scheduled after %d ms, not after its own first back-off interval (50 ms): back-off state is shared between containers built from one option value", d)
			}
			if !vsched.FireEarliest() {
				fail("C14.retry-lost", "container B: no retry timer armed after its first failure")
			}
			vsched.Settle()
			if vsched.Ctr(runsA) != 4 || vsched.Ctr(runsB) != 2 {
				fail("C14.retry-lost", "runs: A=%d B=%d, want 4 and 2", vsched.Ctr(runsA), vsched.Ctr(runsB))
			}
			a.ClearContext()
			b.ClearContext()
			vsched.Settle()
		},
	})
	eng.Register(&eng.Scenario{
		Name: "routine-retry-ctxswap", Props: []string{"C14", "C05"}, ObsNames: stdObs,
		Doc:   "RoutineContainer with retry back-off (timers fire freely): the first instance returns an error; the container is given another context with SetContext(ctx2, restart=false) - which leaves the failed routine to its pending retry - and then the owner of the first context cancels it: the retry runs the routine again, under ctx2",
		Quick: eng.Bounds{PB: 2}, Thorough: eng.Bounds{PB: 3},
		Body: func() {
			o := newRCRetry()
			ctx1, cancel1 := context.WithCancel(context.WithValue(context.Background(), ctxKey{}, 1))
			defer cancel1()
			vsched.CtrAdd(rCalls, 1)
			vsched.CtrSet(rCtxTag, 1)
			o.setContext(ctx1, false)
			vsched.CtrAdd(rCallsDone, 1)
			var cur context.Context = ctx1
			doLetter(o, lSetRoutine, &cur, "")
			if vsched.Choose(2) == 1 {
				vsched.Settle()
			}
			doLetter(o, lCtxFresh, &cur, "") // SetContext(fresh, false)
			vsched.CtrAdd(rCalls, 1)
			cancel1() // the old context ends; the container no longer uses it
			vsched.CtrAdd(rCallsDone, 1)
			vsched.Settle()
			live, _, _ := liveInstances(0)
			if vsched.Ctr(rRuns) < 2 || live != 1 {
				fail("C14.retry-lost", "the routine failed once with retry configured and the container was moved to another context without restart: %d run(s), %d live instance(s) at quiescence, want the retry to have run it again", vsched.Ctr(rRuns), live)
			}
			finalRoutineOracle(o, false)
			o.clear()
			vsched.Settle()
		},
	})
	eng.Register(&eng.Scenario{
		Name: "routine-waitexited-restart", Props: []string{"C14"}, ObsNames: stdObs, Manual: true, RacePB: 2,
		Doc:   "RoutineContainer / StateRoutineContainer (choice) whose instance has failed with E: a caller enters WaitExited while another thread restarts the routine (RestartRoutine or SetContext(fresh,true), choice; the new instance runs until cancelled): WaitExited returns E (it saw the failed instance) or keeps waiting for the new instance - never nil, never anything else",
		Quick: eng.Bounds{PB: 2}, Thorough: eng.Bounds{PB: 4},
		Body: func() {
			state := vsched.Choose(2) == 1
			how := vsched.Choose(2)
			body := func(ctx context.Context) error {
				out := iUntilCancelled
				if vsched.Ctr(rEntered) == 0 {
					out = iReturnErr
				}
				return instance(ctx, 1, out, 0)
			}
			var waitExited func(ctx context.Context, returnIfNotRunning bool, errCh <-chan error) error
			var clear, restart func() bool
			var setContext func(ctx context.Context, restart bool) bool
			c := context.WithValue(context.Background(), ctxKey{}, 1)
			if state {
				k := routine.NewStateRoutineContainer[int](nil, exitObs())
				k.SetStateRoutine(func(ctx context.Context, st int) error { return body(ctx) })
				k.SetContext(c, false)
				k.SetState(1)
				waitExited, clear, restart, setContext = k.WaitExited, k.ClearContext, k.RestartRoutine, k.SetContext
			} else {
				k := routine.NewRoutineContainer(exitObs())
				k.SetRoutine(body)
				k.SetContext(c, false)
				waitExited, clear, restart, setContext = k.WaitExited, k.ClearContext, k.RestartRoutine, k.SetContext
			}
			vsched.Settle() // the first instance has failed
			wctx, wcancel := context.WithCancel(context.Background())
			T("W", func() {
				label("WaitExited")
				err := waitExited(wctx, false, nil)
				label("")
				if err == errRoutine || (err == context.Canceled && wctx.Err() != nil) {
					return
				}
				fail("C14.waitexited", "the instance failed with E and was then restarted (the new instance is running): WaitExited returned %v", err)
			})
			T("R", func() {
				if how == 0 {
					restart()
				} else {
					setContext(context.WithValue(context.Background(), ctxKey{}, 2), true)
				}
			})
			vsched.Settle()
			clear()
			wcancel()
			vsched.Settle()
		},
	})
	eng.Register(&eng.Scenario{
		Name: "routine-waitexited-parked", Props: []string{"C14"}, ObsNames: stdObs, Manual: true,
		Doc:   "RoutineContainer / StateRoutineContainer with or without retry back-off (choices; the retry timer does not fire): two callers are already blocked in WaitExited when the instance returns (an error or nil, choice): both return that instance's result at once - they are not left waiting for the retry",
		Quick: eng.Bounds{PB: 2}, Thorough: eng.Bounds{PB: 3},
		Body: func() {
			withRetry := vsched.Choose(2) == 1
			state := vsched.Choose(2) == 1
			out := []int{iReturnErr, iReturnNil}[vsched.Choose(2)]
			var opts []routine.Option
			if withRetry {
				opts = append(opts, routine.WithBackoff(&constBackoff{}))
			}
			g := &vsched.Gate{}
			body := func(ctx context.Context) error {
				g.Wait() // the instance returns only once both waiters are parked
				return instance(ctx, 1, out, 0)
			}
			var waitExited func(ctx context.Context, returnIfNotRunning bool, errCh <-chan error) error
			var clear func() bool
			c := context.WithValue(context.Background(), ctxKey{}, 1)
			if state {
				k := routine.NewStateRoutineContainer[int](nil, opts...)
				k.SetStateRoutine(func(ctx context.Context, st int) error { return body(ctx) })
				k.SetContext(c, false)
				k.SetState(1)
				waitExited, clear = k.WaitExited, k.ClearContext
			} else {
				k := routine.NewRoutineContainer(opts...)
				k.SetRoutine(body)
				k.SetContext(c, false)
				waitExited, clear = k.WaitExited, k.ClearContext
			}
			for i := 0; i < 2; i++ {
				T("W", func() {
					label("WaitExited")
					err := waitExited(context.Background(), false, nil)
					label("")
					want := error(nil)
					if out == iReturnErr {
						want = errRoutine
					}
					if err != want {
						fail("C14.waitexited", "WaitExited returned %v, the instance returned %v", err, want)
					}
				})
			}
			vsched.Settle() // both waiters parked, the instance waits at the gate
			g.Open()
			vsched.Settle()
			if n := vsched.CountParked("WaitExited"); n > 0 {
				fail("C14.waitexited", "%d caller(s) still blocked in WaitExited although the current instance has exited (retry configured: %v, pending, not fired)", n, withRetry)
			}
			clear()
			vsched.Settle()
		},
	})
	eng.Register(&eng.Scenario{
		Name: "routine-retry-replace", Props: []string{"C04", "C05", "C14"}, ObsNames: stdObs,
		Doc:   "RoutineContainer with retry back-off, delay-bounded so that the retry timer's callback can be in flight (fired, not yet holding the lock) across one controller call out of {SetRoutine(new), RestartRoutine, SetContext(fresh,true), ClearContext, SetContext(same)}: whatever the retry callback then starts must be the current routine under the current context, and nothing is left running after ClearContext",
		Quick: eng.Bounds{PB: 4, Delay: true}, Thorough: eng.Bounds{PB: 5, Delay: true},
		Body: func() {
			o := newRCRetry()
			var cur context.Context
			doLetter(o, lCtxFresh, &cur, "")
			doLetter(o, lSetRoutine, &cur, "")
			alpha := []int{lSetRoutine, lRestart, lCtxFreshRestart, lClear, lCtxSame}
			doLetter(o, alpha[vsched.Choose(len(alpha))], &cur, "")
			finalRoutineOracle(o, false)
			spuriousCancelOracle()
			o.clear()
			vsched.Settle()
			if a := vsched.Ctr(rActive); a != 0 {
				fail("C05.live-after-clear", "%d instance(s) still executing after ClearContext and quiescence", a)
			}
		},
	})
	eng.Register(&eng.Scenario{
		Name: "sroutine-exit-swap", Props: []string{"C04", "C05", "C14"}, ObsNames: stdObs,
		Doc:   "StateRoutineContainer (with or without retry back-off, choice): the first instance returns by itself (nil or error, choice); then SwapValue(+10), SetState(2), SetState(0) or SetStateRoutine(nil) (choice), then one of {nothing, RestartRoutine, SetContext(fresh,true), SetStateRoutine(new)}: the instance alive once quiet was given GetState()",
		Quick: eng.Bounds{PB: 2, Delay: true}, Thorough: eng.Bounds{PB: 4, Delay: true},
		Body: func() {
			var opts []routine.Option
			if vsched.Choose(2) == 1 {
				opts = append(opts, routine.WithBackoff(&constBackoff{}))
			}
			first := []int{iReturnErr, iReturnNil}[vsched.Choose(2)]
			k := routine.NewStateRoutineContainer[int](func(a, b int) bool { return a == b }, opts...)
			o := &rcOps{
				setRoutine: func(tag int) <-chan struct{} {
					ch, _, _ := k.SetStateRoutine(func(ctx context.Context, st int) error {
						out := iUntilCancelled
						if vsched.CtrAdd(rRuns, 1) == 1 {
							out = first
						}
						return instance(ctx, tag, out, st)
					})
					return ch
				},
				setNil:     func() <-chan struct{} { ch, _, _ := k.SetStateRoutine(nil); return ch },
				restart:    k.RestartRoutine,
				setContext: k.SetContext,
				clear:      k.ClearContext,
				setState: func(s int) <-chan struct{} {
					ch, _, _, _ := k.SetState(s)
					return ch
				},
				getState: k.GetState,
				swapState: func(f func(int) int) int {
					n, _, _, _, _ := k.SwapValue(f)
					return n
				},
			}
			var cur context.Context
			doLetter(o, lCtxFresh, &cur, "")
			doLetter(o, lState1, &cur, "")
			doLetter(o, lSetRoutine, &cur, "")
			if vsched.Choose(2) == 0 {
				vsched.Settle() // the first instance has returned
			}
			switch vsched.Choose(4) {
			case 0:
				vsched.CtrAdd(rCalls, 1) // (a controller call like the others)
				o.swapState(func(v int) int { return v + 10 })
				vsched.CtrAdd(rCallsDone, 1)
			case 1:
				doLetter(o, lState2, &cur, "")
			case 2:
				doLetter(o, lState0, &cur, "") // the state is cleared after the instance returned by itself
			case 3:
				doLetter(o, lSetNil, &cur, "") // the routine is removed after the instance returned by itself
			}
			if l := []int{-1, lRestart, lCtxFreshRestart, lSetRoutine}[vsched.Choose(4)]; l >= 0 {
				doLetter(o, l, &cur, "")
			}
			finalRoutineOracle(o, true)
			spuriousCancelOracle()
			o.clear()
			vsched.Settle()
			if a := vsched.Ctr(rActive); a != 0 {
				fail("C05.live-after-clear", "%d instance(s) still executing after ClearContext and quiescence", a)
			}
		},
	})
	eng.Register(&eng.Scenario{
		Name: "routine-withretry", Props: []string{"C14", "C05"}, ObsNames: stdObs,
		Doc:   "RoutineContainer / StateRoutineContainer built through the other option spellings (choice): WithRetry(constant back-off config); WithRetry(config) then WithRetry(nil) or WithBackoff(nil); WithRetry(&Backoff{}) (all defaults); NewRoutineContainerWithLogger + WithRetry; NewStateRoutineContainerWithLogger (nil compare function) + WithRetry; NewStateRoutineContainerVT / ...WithLoggerVT + WithRetry: the first instance returns an error; with retry configured it is run again by quiescence and exactly one instance is live, without it it is not run again until RestartRoutine; every exit is reported once to the exit callback",
		Quick: eng.Bounds{PB: 2}, Thorough: eng.Bounds{PB: 3},
		Body: func() {
			how := vsched.Choose(8)
			le := logrus.NewEntry(logrus.New())
			le.Logger.SetOutput(io.Discard)
			conf := &ubackoff.Backoff{BackoffKind: ubackoff.BackoffKind_BackoffKind_CONSTANT, Constant: &ubackoff.Constant{Interval: 1000}}
			exitCb := routine.WithExitCb(func(err error) {
				vsched.CtrAdd(rExitCbs, 1)
				vsched.Observe(oCb, 2, errCode(err), 0)
			})
			body := func(ctx context.Context) error {
				out := iUntilCancelled
				if vsched.CtrAdd(rRuns, 1) == 1 {
					out = iReturnErr
				}
				return instance(ctx, 1, out, 0)
			}
			retry := how != 1 && how != 5
			var restart func() bool
			var clear func() bool
			c := context.WithValue(context.Background(), ctxKey{}, 1)
			vsched.CtrSet(rCtxTag, 1)
			vsched.CtrSet(rHasRt, 1)
			if how == 4 {
				// a non-nil config with every field (also the kind) left at its zero value: the default exponential back-off
				conf = &ubackoff.Backoff{}
			}
			switch how {
			case 0, 1, 2, 4, 5:
				opts := []routine.Option{routine.WithRetry(conf), exitCb}
				if how == 1 {
					opts = append(opts, routine.WithRetry(nil))
				}
				if how == 5 {
					opts = append(opts, routine.WithBackoff(nil)) // the other spelling of "no retry"
				}
				var k *routine.RoutineContainer
				if how == 2 {
					k = routine.NewRoutineContainerWithLogger(le, opts...)
				} else {
					k = routine.NewRoutineContainer(opts...)
				}
				k.SetRoutine(body)
				k.SetContext(c, false)
				restart, clear = k.RestartRoutine, k.ClearContext
			case 3:
				k := routine.NewStateRoutineContainerWithLogger[int](nil, le, routine.WithRetry(conf), exitCb)
				k.SetStateRoutine(func(ctx context.Context, st int) error { return body(ctx) })
				k.SetContext(c, false)
				k.SetState(1)
				restart, clear = k.RestartRoutine, k.ClearContext
			case 6, 7:
				// the two constructors for states with VT equality take the same options
				var k *routine.StateRoutineContainer[*vtMsg]
				if how == 6 {
					k = routine.NewStateRoutineContainerVT[*vtMsg](routine.WithRetry(conf), exitCb)
				} else {
					k = routine.NewStateRoutineContainerWithLoggerVT[*vtMsg](le, routine.WithRetry(conf), exitCb)
				}
				k.SetStateRoutine(func(ctx context.Context, st *vtMsg) error { return body(ctx) })
				k.SetContext(c, false)
				k.SetState(&vtMsg{n: 1})
				restart, clear = k.RestartRoutine, k.ClearContext
			}
			vsched.Settle() // auto timers: the retry (if configured) has happened
			runs := vsched.Ctr(rRuns)
			live, _, _ := liveInstances(0)
			if retry && (runs != 2 || live != 1) {
				fail("C14.retry-lost", "the routine returned an error with retry configured (variant %d): %d run(s), %d live instance(s) at quiescence, want 2 and 1", how, runs, live)
			}
			if !retry && (runs != 1 || live != 0) {
				fail("C14.extra-run", "retry disabled by WithRetry(nil): %d run(s), %d live instance(s) at quiescence, want 1 and 0", runs, live)
			}
			if n := vsched.Ctr(rExitCbs); n != 1 {
				fail("C14.exit-callback", "one instance has exited but the exit callback ran %d time(s)", n)
			}
			if !retry {
				if !restart() {
					fail("C14.restart-result", "RestartRoutine on a failed routine returned false")
				}
				vsched.Settle()
				if l, _, _ := liveInstances(0); vsched.Ctr(rRuns) != 2 || l != 1 {
					fail("C14.retry-lost", "RestartRoutine did not run the failed routine again")
				}
			}
			clear()
			vsched.CtrSet(rCtxTag, 0)
			vsched.Settle()
			if l, _, _ := liveInstances(0); l != 0 || vsched.Ctr(rActive) != 0 {
				fail("C05.live-after-clear", "%d live instance(s) after ClearContext and quiescence", l)
			}
			// (whether the exit of an instance cancelled by ClearContext is reported is not stated: 1 or 2)
			if n := vsched.Ctr(rExitCbs); n < 1 || n > 2 {
				fail("C14.exit-callback", "two instances have exited (the second one cancelled by ClearContext) but the exit callback ran %d time(s)", n)
			}
		},
	})
}

// newRCRetry: the first entry returns an error, all later ones run until cancelled.
func newRCRetry() *rcOps {
	firstErr := []int{iReturnErr, iReturnCanceled}[vsched.Choose(2)] // which error the first instance returns
	k := routine.NewRoutineContainer(routine.WithBackoff(&constBackoff{}), exitObs())
	vsched.CtrSet(rTagsExact, 1)
	return &rcOps{
		setRoutine: func(tag int) <-chan struct{} {
			ch, _ := k.SetRoutine(func(ctx context.Context) error {
				out := iUntilCancelled
				if vsched.CtrAdd(rRuns, 1) == 1 {
					out = firstErr
				}
				return instance(ctx, tag, out, 0)
			})
			return ch
		},
		restart:    k.RestartRoutine,
		setContext: k.SetContext,
		clear:      k.ClearContext,
	}
}
