package scn

import (
	"context"

	"github.com/aperturerobotics/util/csync"
	"github.com/aperturerobotics/util/zzverif/vsched"
	"verifharness/eng"
)

// counters
const (
	cW = iota // write holders
	cR        // read holders
	cDone
	cWaitW // uncancelled writers currently inside Lock(write)
	cFlag
	cFlag2
)

// occupancy oracle (C01): called in the same segment as the return of a successful acquire.
func acquired(write bool) {
	if write {
		vsched.CtrAdd(cW, 1)
	} else {
		vsched.CtrAdd(cR, 1)
	}
	w, r := vsched.Ctr(cW), vsched.Ctr(cR)
	vsched.Observe(oAcq, b2i(write), w, r)
	if w > 1 || (w > 0 && r > 0) {
		fail("exclusion", "write holders=%d read holders=%d after an acquire", w, r)
	}
}

// releasing is called in the same segment as the entry of the first release call.
func releasing(write bool) {
	if write {
		vsched.CtrAdd(cW, -1)
	} else {
		vsched.CtrAdd(cR, -1)
	}
	vsched.Observe(oRel, b2i(write), 0, 0)
}

// useMutex: Lock, hold, release, release again.
func useMutex(m *csync.Mutex, ctx context.Context, double bool) {
	label("Mutex.Lock")
	rel, err := m.Lock(ctx)
	label("")
	if err != nil {
		vsched.Observe(oErr, 0, 0, 0)
		if err != context.Canceled || ctx.Err() == nil {
			fail("C02.cancel-error", "Lock returned %v with ctx.Err()=%v", err, ctx.Err())
		}
		if rel != nil {
			fail("C01.error-with-release", "Lock returned an error and a release function")
		}
		return
	}
	acquired(true)
	vsched.Point()
	releasing(true)
	rel()
	if double {
		rel()
	}
}

func tryMutex(m *csync.Mutex, double bool) {
	rel, ok := m.TryLock()
	if !ok {
		vsched.Observe(oTryFail, 0, 0, 0)
		return
	}
	acquired(true)
	vsched.Point()
	releasing(true)
	rel()
	if double {
		rel()
	}
}

func useRW(m *csync.RWMutex, ctx context.Context, write, double bool) {
	if write {
		label("RWMutex.Lock(write)")
	} else {
		label("RWMutex.Lock(read)")
	}
	rel, err := m.Lock(ctx, write)
	label("")
	if err != nil {
		vsched.Observe(oErr, b2i(write), 0, 0)
		if err != context.Canceled || ctx.Err() == nil {
			fail("C02.cancel-error", "Lock returned %v with ctx.Err()=%v", err, ctx.Err())
		}
		return
	}
	acquired(write)
	vsched.Point()
	releasing(write)
	rel()
	if double {
		rel()
	}
}

func tryRW(m *csync.RWMutex, write, double bool) {
	rel, ok := m.TryLock(write)
	if !ok {
		vsched.Observe(oTryFail, b2i(write), 0, 0)
		return
	}
	acquired(write)
	vsched.Point()
	releasing(write)
	rel()
	if double {
		rel()
	}
}

// finalProbeMutex: after everything is quiet the lock must be free.
func finalProbeMutex(m *csync.Mutex) {
	vsched.Settle()
	vsched.CtrSet(cDone, 1)
	if vsched.Ctr(cW) != 0 {
		return // a harness thread is still parked holding: reported by MustFinish
	}
	// (checked before the probe: the probe's own release would wake a waiter that missed a wake-up)
	if n := vsched.CountParked("Mutex.Lock") + vsched.CountParked("Locker.Lock"); n > 0 {
		fail("waiter-stuck", "%d caller(s) parked in Lock although nobody holds the mutex and nothing else can happen", n)
		return
	}
	rel, ok := m.TryLock()
	if !ok {
		fail("lock-leaked", "C01/C02: TryLock fails after every holder released and every waiter returned: a call that returned an error or a repeated release left the mutex locked")
		return
	}
	rel()
}

func finalProbeRW(m *csync.RWMutex) {
	vsched.Settle()
	if vsched.Ctr(cW) != 0 || vsched.Ctr(cR) != 0 {
		return
	}
	if n := vsched.CountParked("RWMutex.Lock(write)") + vsched.CountParked("RWMutex.Lock(read)") + vsched.CountParked("Locker.Lock") + vsched.CountParked("RLocker.Lock"); n > 0 {
		fail("waiter-stuck", "%d caller(s) parked in Lock although nobody holds the RWMutex and nothing else can happen", n)
		return
	}
	rel, ok := m.TryLock(true)
	if !ok {
		fail("lock-leaked", "C01/C02: TryLock(write) fails after every holder released and every waiter returned")
		return
	}
	rel()
	rel, ok = m.TryLock(false)
	if !ok {
		fail("C02.leak", "TryLock(read) fails on an idle RWMutex: a waiting-writer registration leaked")
		return
	}
	rel2, ok2 := m.TryLock(false)
	if !ok2 {
		fail("C02.leak", "second TryLock(read) fails on an RWMutex held only by a reader")
		return
	}
	rel()
	rel2()
	rel, ok = m.TryLock(true)
	if !ok {
		fail("C02.leak", "TryLock(write) fails after the probe readers released")
		return
	}
	rel()
}

func init() {
	bg := context.Background()
	eng.Register(&eng.Scenario{
		Name: "csync-M1", Props: []string{"C01", "C02"}, MustFinish: true, ObsNames: stdObs,
		Doc:   "Mutex: 3 threads x {Lock(bg), hold, release, release again}; final TryLock probe",
		Quick: eng.Bounds{PB: 2}, Thorough: eng.Bounds{PB: 3},
		Body: func() {
			var m csync.Mutex
			for i := 0; i < 3; i++ {
				T("U", func() { useMutex(&m, bg, true) })
			}
			finalProbeMutex(&m)
		},
	})
	eng.Register(&eng.Scenario{
		Name: "csync-M2", Props: []string{"C01", "C02"}, MustFinish: true, ObsNames: stdObs,
		Doc:   "Mutex: Lock(bg) | TryLock | Lock(cancellable ctx) | canceller; cancellation lands at every point of the hand-off",
		Quick: eng.Bounds{PB: 2}, Thorough: eng.Bounds{PB: 3},
		Body: func() {
			var m csync.Mutex
			ctx, cancel := context.WithCancel(bg)
			T("L", func() { useMutex(&m, bg, false) })
			T("Try", func() { tryMutex(&m, true) })
			T("LC", func() { useMutex(&m, ctx, true) })
			T("C", func() { cancel() })
			finalProbeMutex(&m)
		},
	})
	eng.Register(&eng.Scenario{
		Name: "csync-M3", Props: []string{"C01", "C02"}, MustFinish: true, ObsNames: stdObs,
		Doc:   "Mutex: stale release - T1 releases twice, the second time possibly after T2 acquired; T3 probes with TryLock",
		Quick: eng.Bounds{PB: 2}, Thorough: eng.Bounds{PB: 3},
		Body: func() {
			var m csync.Mutex
			T("T1", func() {
				rel, err := m.Lock(bg)
				if err != nil {
					fail("C01.lock-error", "Lock(bg) failed: %v", err)
					return
				}
				acquired(true)
				vsched.Point()
				releasing(true)
				rel()
				vsched.Point()
				rel() // stale
				rel2, ok := m.TryLock()
				if ok {
					acquired(true)
					releasing(true)
					rel2()
					rel() // stale again
				}
			})
			T("T2", func() { useMutex(&m, bg, false) })
			T("T3", func() { tryMutex(&m, true) })
			finalProbeMutex(&m)
		},
	})
	eng.Register(&eng.Scenario{
		Name: "csync-M4", Props: []string{"C01", "C02"}, MustFinish: true, ObsNames: stdObs,
		Doc:   "Mutex.Locker(): two Locker users (sharing one Locker value or with one each, choice) and a direct Lock user",
		Quick: eng.Bounds{PB: 2}, Thorough: eng.Bounds{PB: 3},
		Body: func() {
			var m csync.Mutex
			shared := m.Locker()
			useShared := vsched.Choose(2) == 1 // one Locker value shared by both users, or one each
			for i := 0; i < 2; i++ {
				T("K", func() {
					l := shared
					if !useShared {
						l = m.Locker()
					}
					label("Locker.Lock")
					l.Lock()
					label("")
					acquired(true)
					vsched.Point()
					releasing(true)
					l.Unlock()
				})
			}
			T("U", func() { useMutex(&m, bg, true) })
			finalProbeMutex(&m)
		},
	})
	eng.Register(&eng.Scenario{
		Name: "csync-RW1", Props: []string{"C01", "C02"}, MustFinish: true, ObsNames: stdObs,
		Doc:   "RWMutex: 2 readers + 1 writer, Lock/hold/release/double release",
		Quick: eng.Bounds{PB: 2}, Thorough: eng.Bounds{PB: 3},
		Body: func() {
			var m csync.RWMutex
			T("R", func() { useRW(&m, bg, false, true) })
			T("R", func() { useRW(&m, bg, false, true) })
			T("W", func() { useRW(&m, bg, true, true) })
			finalProbeRW(&m)
		},
	})
	eng.Register(&eng.Scenario{
		Name: "csync-RW2", Props: []string{"C01", "C02"}, MustFinish: true, ObsNames: stdObs,
		Doc:   "RWMutex: reader, writer, TryLock(read), TryLock(write)",
		Quick: eng.Bounds{PB: 2}, Thorough: eng.Bounds{PB: 3},
		Body: func() {
			var m csync.RWMutex
			T("R", func() { useRW(&m, bg, false, false) })
			T("W", func() { useRW(&m, bg, true, false) })
			T("TR", func() { tryRW(&m, false, true) })
			T("TW", func() { tryRW(&m, true, true) })
			finalProbeRW(&m)
		},
	})
	eng.Register(&eng.Scenario{
		Name: "csync-RW3", Props: []string{"C01", "C02"}, MustFinish: true, ObsNames: stdObs,
		Doc:   "RWMutex: reader, cancellable writer, cancellable reader, writer, one canceller for both",
		Quick: eng.Bounds{PB: 1}, Thorough: eng.Bounds{PB: 2},
		Body: func() {
			var m csync.RWMutex
			ctx, cancel := context.WithCancel(bg)
			T("R", func() { useRW(&m, bg, false, false) })
			T("WC", func() { useRW(&m, ctx, true, true) })
			T("RC", func() { useRW(&m, ctx, false, true) })
			T("W", func() { useRW(&m, bg, true, false) })
			T("C", func() { cancel() })
			finalProbeRW(&m)
		},
	})
	eng.Register(&eng.Scenario{
		Name: "csync-RW4", Props: []string{"C01", "C02"}, MustFinish: true, ObsNames: stdObs,
		Doc:   "RWMutex.Locker()/RLocker(): write locker, two users of one shared read locker",
		Quick: eng.Bounds{PB: 2}, Thorough: eng.Bounds{PB: 3},
		Body: func() {
			var m csync.RWMutex
			rl := m.RLocker()
			T("WL", func() {
				l := m.Locker()
				label("Locker.Lock")
				l.Lock()
				label("")
				acquired(true)
				vsched.Point()
				releasing(true)
				l.Unlock()
			})
			for i := 0; i < 2; i++ {
				T("RL", func() {
					label("RLocker.Lock")
					rl.Lock()
					label("")
					acquired(false)
					vsched.Point()
					releasing(false)
					rl.Unlock()
				})
			}
			finalProbeRW(&m)
		},
	})
}

// ---- C02: liveness at every quiescent state ----

const (
	cPhase     = 8 + iota
	cWRet      // the cancellable writer's Lock returned
	cCancelled // cancel() was (about to be) called
	cWWasParked
)

const (
	lM  = "Mutex.Lock"
	lRW = "RWMutex.Lock(write)"
	lRR = "RWMutex.Lock(read)"
)

// quiescentLockOracle: at a quiescent state nobody may be parked in a Lock that its own
// rules would grant. Holder counts are the harness's exact occupancy counters.
func quiescentLockOracle() bool {
	w, r := vsched.Ctr(cW), vsched.Ctr(cR)
	if n := vsched.CountParked(lM); n > 0 && w == 0 {
		fail("waiter-stuck", "%d thread(s) parked in Mutex.Lock while nobody holds the mutex", n)
		return false
	}
	pw, pr := vsched.CountParked(lRW), vsched.CountParked(lRR)
	if pw > 0 && w == 0 && r == 0 {
		fail("C02.writer-stuck", "%d writer(s) parked in RWMutex.Lock while nobody holds the lock", pw)
		return false
	}
	if pr > 0 && w == 0 && pw == 0 {
		fail("C02.reader-stuck", "%d reader(s) parked in RWMutex.Lock while no writer holds or waits (read holders=%d)", pr, r)
		return false
	}
	return true
}

// phases installs a quiescence callback that checks the oracle and then opens the given
// gate groups one after the other.
func phases(groups ...[]*vsched.Gate) {
	vsched.OnQuiescent(func() bool {
		if !quiescentLockOracle() {
			return false
		}
		p := int(vsched.CtrAdd(cPhase, 1)) - 1
		if p >= len(groups) {
			return false
		}
		for _, g := range groups[p] {
			g.Open()
		}
		return true
	})
}

func gates(g ...*vsched.Gate) []*vsched.Gate { return g }

func init() {
	bg := context.Background()
	eng.Register(&eng.Scenario{
		Name: "csync-L1", Props: []string{"C02", "C01"}, MustFinish: true, ObsNames: stdObs,
		Doc:   "Mutex: holder behind a gate, cancellable waiter W1, waiter W2, canceller released once both are parked; oracle at every quiescent state",
		Quick: eng.Bounds{PB: 2}, Thorough: eng.Bounds{PB: 3},
		Body: func() {
			var m csync.Mutex
			ctx, cancel := context.WithCancel(bg)
			g1, gC, gF := &vsched.Gate{}, &vsched.Gate{}, &vsched.Gate{}
			phases(gates(gC), gates(g1), gates(gF))
			rel, _ := m.Lock(bg)
			acquired(true)
			T("H", func() { g1.Wait(); releasing(true); rel(); rel() })
			T("W1", func() { useMutex(&m, ctx, true) })
			T("W2", func() { useMutex(&m, bg, false) })
			T("C", func() { gC.Wait(); cancel() })
			gF.Wait()
			finalProbeMutex(&m)
		},
	})
	eng.Register(&eng.Scenario{
		Name: "csync-L2", Props: []string{"C02", "C01"}, MustFinish: true, ObsNames: stdObs,
		Doc:   "RWMutex: long-lived reader R1 behind a gate, cancellable writer W, reader R2 issued only after W is parked in Lock, canceller; oracle at every quiescent state",
		Quick: eng.Bounds{PB: 2}, Thorough: eng.Bounds{PB: 3},
		Body: func() {
			var m csync.RWMutex
			ctx, cancel := context.WithCancel(bg)
			g1, g2, gC, gF := &vsched.Gate{}, &vsched.Gate{}, &vsched.Gate{}, &vsched.Gate{}
			phases(gates(g2, gC), gates(g1), gates(gF))
			rel, _ := m.Lock(bg, false)
			acquired(false)
			T("R1", func() { g1.Wait(); releasing(false); rel() })
			T("W", func() {
				label(lRW)
				relW, err := m.Lock(ctx, true)
				label("")
				vsched.CtrSet(cWRet, 1)
				if err == nil {
					acquired(true)
					vsched.Point()
					releasing(true)
					relW()
				} else if err != context.Canceled {
					fail("C02.cancel-error", "Lock returned %v", err)
				}
			})
			T("R2", func() {
				g2.Wait()
				wasParked := vsched.CountParked(lRW) > 0
				label(lRR)
				relR, err := m.Lock(bg, false)
				label("")
				if err != nil {
					fail("C02.lock-error", "Lock(bg,read) failed: %v", err)
					return
				}
				acquired(false)
				if wasParked && vsched.Ctr(cWRet) == 0 && vsched.Ctr(cCancelled) == 0 {
					fail("C02.reader-overtook-writer", "a read Lock issued while a writer was waiting was granted before that writer acquired or gave up")
				}
				vsched.Point()
				releasing(false)
				relR()
			})
			T("C", func() { gC.Wait(); vsched.CtrSet(cCancelled, 1); cancel() })
			gF.Wait()
			finalProbeRW(&m)
		},
	})
	eng.Register(&eng.Scenario{
		Name: "csync-L3", Props: []string{"C02", "C01"}, MustFinish: true, ObsNames: stdObs,
		Doc:   "RWMutex: writer holder behind a gate, two read waiters (one cancellable), one cancellable write waiter, a canceller cancelling the reader's or the writer's context (choice)",
		Quick: eng.Bounds{PB: 1}, Thorough: eng.Bounds{PB: 2},
		Body: func() {
			var m csync.RWMutex
			ctxR, cancelR := context.WithCancel(bg)
			ctxW, cancelW := context.WithCancel(bg)
			g1, gC, gF := &vsched.Gate{}, &vsched.Gate{}, &vsched.Gate{}
			phases(gates(gC), gates(g1), gates(gF))
			rel, _ := m.Lock(bg, true)
			acquired(true)
			which := vsched.Choose(3)
			T("H", func() { g1.Wait(); releasing(true); rel() })
			T("R1", func() { useRW(&m, bg, false, false) })
			T("R2", func() { useRW(&m, ctxR, false, true) })
			T("W", func() { useRW(&m, ctxW, true, true) })
			T("C", func() {
				gC.Wait()
				switch which {
				case 0:
					cancelR()
				case 1:
					cancelW()
				case 2:
					cancelW()
					cancelR()
				}
			})
			gF.Wait()
			finalProbeRW(&m)
		},
	})
	eng.Register(&eng.Scenario{
		Name: "csync-L4", Props: []string{"C02", "C01"}, MustFinish: true, ObsNames: stdObs,
		Doc:   "RWMutex: reader holder behind a gate, two cancellable write waiters (separate contexts, both cancelled), a reader arriving after they are parked",
		Quick: eng.Bounds{PB: 1}, Thorough: eng.Bounds{PB: 2},
		Body: func() {
			var m csync.RWMutex
			ctx1, cancel1 := context.WithCancel(bg)
			ctx2, cancel2 := context.WithCancel(bg)
			g1, g2, gF := &vsched.Gate{}, &vsched.Gate{}, &vsched.Gate{}
			phases(gates(g2), gates(g1), gates(gF))
			rel, _ := m.Lock(bg, false)
			acquired(false)
			T("H", func() { g1.Wait(); releasing(false); rel() })
			T("W1", func() { useRW(&m, ctx1, true, false) })
			T("W2", func() { useRW(&m, ctx2, true, false) })
			T("R", func() { g2.Wait(); useRW(&m, bg, false, false) })
			T("C", func() { g2.Wait(); cancel1(); cancel2() })
			gF.Wait()
			finalProbeRW(&m)
		},
	})
}

// ---- C02: a reader that started behind a waiting writer must not overtake it ----

const (
	cW2Ret      = 20 + iota // the (uncancelled) writer's Lock returned
	cLateParked             // the late reader observed the writer parked when it started
)

// lateReader: Lock(read) issued while a writer is parked; on acquire that writer must have returned.
func lateReader(m *csync.RWMutex, g *vsched.Gate) { lateReaderVia(m, g, 0) }

// lateReaderVia: how = 0 Lock(read), 1 TryLock(read) (a refusal is fine), 2 RLocker().Lock()
func lateReaderVia(m *csync.RWMutex, g *vsched.Gate, how int) {
	g.Wait()
	wasParked := vsched.CountParked(lRW) > 0
	var rel func()
	switch how {
	case 0:
		label(lRR)
		r, err := m.Lock(context.Background(), false)
		label("")
		if err != nil {
			fail("C02.lock-error", "Lock(bg,read) failed: %v", err)
			return
		}
		rel = r
	case 1:
		r, ok := m.TryLock(false)
		if !ok {
			return
		}
		rel = r
	case 2:
		l := m.RLocker()
		label(lRR)
		l.Lock()
		label("")
		rel = l.Unlock
	}
	acquired(false)
	if wasParked && vsched.Ctr(cW2Ret) == 0 {
		fail("C02.reader-overtook-writer", "a read Lock issued while a writer was waiting was granted before that writer acquired or gave up")
	}
	vsched.Point()
	releasing(false)
	rel()
}

// steadyWriter: an uncancelled writer; records when its Lock returned.
func steadyWriter(m *csync.RWMutex) {
	label(lRW)
	rel, err := m.Lock(context.Background(), true)
	label("")
	vsched.CtrSet(cW2Ret, 1)
	if err != nil {
		fail("C02.lock-error", "Lock(bg,write) failed: %v", err)
		return
	}
	acquired(true)
	vsched.Point()
	releasing(true)
	rel()
}

func init() {
	bg := context.Background()
	eng.Register(&eng.Scenario{
		Name: "csync-L5", Props: []string{"C02", "C01"}, MustFinish: true, ObsNames: stdObs,
		Doc:   "RWMutex: a reader or a writer (choice) R1 holds behind a gate, writer W (never cancelled) waits, reader R2 (Lock, TryLock or RLocker().Lock, choice) is issued once W is parked; then R1 releases so that W and R2 are woken together: R2 may not be granted before W",
		Quick: eng.Bounds{PB: 2}, Thorough: eng.Bounds{PB: 4},
		Body: func() {
			var m csync.RWMutex
			g1, g2, gF := &vsched.Gate{}, &vsched.Gate{}, &vsched.Gate{}
			phases(gates(g2), gates(g1), gates(gF))
			hw := vsched.Choose(2) == 1 // the first holder is a reader or a writer (a writer queued behind a writer waits all the same)
			rel, _ := m.Lock(bg, hw)
			acquired(hw)
			T("R1", func() { g1.Wait(); releasing(hw); rel() })
			T("W", func() { steadyWriter(&m) })
			how := vsched.Choose(3)
			T("R2", func() { lateReaderVia(&m, g2, how) })
			gF.Wait()
			finalProbeRW(&m)
		},
	})
	eng.Register(&eng.Scenario{
		Name: "csync-L6", Props: []string{"C02", "C01"}, MustFinish: true, ObsNames: stdObs,
		Doc:   "RWMutex: two readers hold behind gates, writer W waits, reader R2 (Lock, TryLock or RLocker().Lock, choice) is issued once W is parked; the first holder releases (an unrelated wake-up: W still cannot be granted), later the second: R2 may not be granted before W",
		Quick: eng.Bounds{PB: 2}, Thorough: eng.Bounds{PB: 3},
		Body: func() {
			var m csync.RWMutex
			ga, gb, g2, gF := &vsched.Gate{}, &vsched.Gate{}, &vsched.Gate{}, &vsched.Gate{}
			phases(gates(g2), gates(ga), gates(gb), gates(gF))
			relA, _ := m.Lock(bg, false)
			acquired(false)
			relB, _ := m.Lock(bg, false)
			acquired(false)
			T("Ra", func() { ga.Wait(); releasing(false); relA() })
			T("Rb", func() { gb.Wait(); releasing(false); relB() })
			T("W", func() { steadyWriter(&m) })
			how := vsched.Choose(3)
			T("R2", func() { lateReaderVia(&m, g2, how) })
			gF.Wait()
			finalProbeRW(&m)
		},
	})
	eng.Register(&eng.Scenario{
		Name: "csync-L7", Props: []string{"C02", "C01"}, MustFinish: true, ObsNames: stdObs,
		Doc:   "RWMutex: reader holds behind a gate, writer W (never cancelled) and a cancellable writer WC wait, reader R2 is issued once both are parked; WC is cancelled (an unrelated wake-up): R2 may not be granted before W",
		Quick: eng.Bounds{PB: 2}, Thorough: eng.Bounds{PB: 3},
		Body: func() {
			var m csync.RWMutex
			ctx, cancel := context.WithCancel(bg)
			g1, g2, gC, gF := &vsched.Gate{}, &vsched.Gate{}, &vsched.Gate{}, &vsched.Gate{}
			phases(gates(g2), gates(gC), gates(g1), gates(gF))
			rel, _ := m.Lock(bg, false)
			acquired(false)
			T("R1", func() { g1.Wait(); releasing(false); rel() })
			T("W", func() { steadyWriter(&m) })
			T("WC", func() { useRW(&m, ctx, true, true) })
			T("R2", func() { lateReader(&m, g2) })
			T("C", func() { gC.Wait(); cancel() })
			gF.Wait()
			finalProbeRW(&m)
		},
	})
}

// ---- C01: the same release function called concurrently from two threads ----

func init() {
	bg := context.Background()
	// concurrentRelease: the holder's release function is called by two threads at once while
	// other threads acquire; a repeated release must never free somebody else's hold.
	mutexBody := func(viaTry bool) func() {
		return func() {
			var m csync.Mutex
			var rel func()
			if viaTry {
				r, ok := m.TryLock()
				if !ok {
					fail("C01.trylock-free", "TryLock failed on a fresh Mutex")
					return
				}
				rel = r
			} else {
				rel, _ = m.Lock(bg)
			}
			acquired(true)
			releasing(true) // from now on the first release call may happen at any time
			T("RelA", func() { rel() })
			T("RelB", func() { rel() })
			T("L", func() { useMutex(&m, bg, false) })
			T("Try", func() { tryMutex(&m, false) })
			finalProbeMutex(&m)
		}
	}
	eng.Register(&eng.Scenario{
		Name: "csync-M5", Props: []string{"C01", "C02"}, MustFinish: true, ObsNames: stdObs,
		Doc:   "Mutex: the release function of one Lock acquisition is called concurrently by two threads while a third thread Locks and a fourth TryLocks: a repeated release may not free another holder",
		Quick: eng.Bounds{PB: 2}, Thorough: eng.Bounds{PB: 3},
		Body: mutexBody(false),
	})
	eng.Register(&eng.Scenario{
		Name: "csync-M6", Props: []string{"C01", "C02"}, MustFinish: true, ObsNames: stdObs,
		Doc:   "Mutex: as csync-M5 with a release function obtained from TryLock",
		Quick: eng.Bounds{PB: 2}, Thorough: eng.Bounds{PB: 3},
		Body: mutexBody(true),
	})
	rwBody := func(write, viaTry bool) func() {
		return func() {
			var m csync.RWMutex
			var rel func()
			if viaTry {
				r, ok := m.TryLock(write)
				if !ok {
					fail("C01.trylock-free", "TryLock failed on a fresh RWMutex")
					return
				}
				rel = r
			} else {
				rel, _ = m.Lock(bg, write)
			}
			acquired(write)
			releasing(write)
			T("RelA", func() { rel() })
			T("RelB", func() { rel() })
			T("W", func() { useRW(&m, bg, true, false) })
			T("R", func() { useRW(&m, bg, false, false) })
			finalProbeRW(&m)
		}
	}
	eng.Register(&eng.Scenario{
		Name: "csync-RW5", Props: []string{"C01", "C02"}, MustFinish: true, ObsNames: stdObs,
		Doc:   "RWMutex: the release function of a write (or read, choice) acquisition, obtained from Lock or TryLock (choice), is called concurrently by two threads while a writer and a reader acquire",
		Quick: eng.Bounds{PB: 2}, Thorough: eng.Bounds{PB: 3},
		Body: func() {
			rwBody(vsched.Choose(2) == 1, vsched.Choose(2) == 1)()
		},
	})
}

// ---- C02: a waiting writer is cancelled at the same time as the holder releases ----

func init() {
	bg := context.Background()
	body := func(holderWrites bool) func() {
		return func() {
			var m csync.RWMutex
			ctx, cancel := context.WithCancel(bg)
			g1, g2, gF := &vsched.Gate{}, &vsched.Gate{}, &vsched.Gate{}
			// phase 1: the late reader starts (W is parked); phase 2: the holder releases AND the
			// writer's context is cancelled, in every interleaving; phase 3: final probe
			phases(gates(g2), gates(g1), gates(gF))
			rel, _ := m.Lock(bg, holderWrites)
			acquired(holderWrites)
			T("H", func() { g1.Wait(); releasing(holderWrites); rel() })
			T("W", func() {
				label(lRW)
				relW, err := m.Lock(ctx, true)
				label("")
				vsched.CtrSet(cW2Ret, 1)
				if err == nil {
					acquired(true)
					vsched.Point()
					releasing(true)
					relW()
				} else if err != context.Canceled {
					fail("C02.cancel-error", "Lock returned %v", err)
				}
			})
			T("R2", func() {
				g2.Wait()
				useRW(&m, bg, false, false)
			})
			T("C", func() { g1.Wait(); cancel() })
			gF.Wait()
			finalProbeRW(&m)
		}
	}
	eng.Register(&eng.Scenario{
		Name: "csync-L8", Props: []string{"C02", "C01"}, MustFinish: true, ObsNames: stdObs,
		Doc:   "RWMutex: a reader holds behind a gate, a cancellable writer W waits, reader R2 queues behind W; then the holder releases and W's context is cancelled concurrently (W may be cancelled after R2 re-checked and went back to sleep): nobody may stay parked",
		Quick: eng.Bounds{PB: 2}, Thorough: eng.Bounds{PB: 3},
		Body: body(false),
	})
	eng.Register(&eng.Scenario{
		Name: "csync-L9", Props: []string{"C02", "C01"}, MustFinish: true, ObsNames: stdObs,
		Doc:   "RWMutex: as csync-L8 with a writer as the initial holder",
		Quick: eng.Bounds{PB: 2}, Thorough: eng.Bounds{PB: 3},
		Body: body(true),
	})
}

func init() {
	bg := context.Background()
	eng.Register(&eng.Scenario{
		Name: "csync-many-readers", Props: []string{"C01", "C02"}, MustFinish: true, ObsNames: stdObs, Horizon: 60000, NoRace: true,
		Doc:   "RWMutex with n simultaneous read holders for n in {1, 2, 100, 255, 256, 257, 300, 1000} (choice), acquired through Lock, TryLock and RLocker in turn: a write TryLock is refused while any of them holds, whatever n is, and granted once all have released",
		Quick: eng.Bounds{PB: 0}, Thorough: eng.Bounds{PB: 0},
		Body: func() {
			n := []int{1, 2, 100, 255, 256, 257, 300, 1000}[vsched.Choose(8)]
			var m csync.RWMutex
			shared := m.RLocker() // every RLocker hold goes through this one value (it keeps a stack of holds)
			rels := make([]func(), 0, n)
			for i := 0; i < n; i++ {
				switch i % 3 {
				case 0:
					rel, err := m.Lock(bg, false)
					if err != nil {
						fail("C02.lock-error", "Lock(bg,read) failed: %v", err)
						return
					}
					rels = append(rels, rel)
				case 1:
					rel, ok := m.TryLock(false)
					if !ok {
						fail("C02.reader-stuck", "TryLock(read) refused although only readers hold the lock and no writer waits (%d readers)", i)
						return
					}
					rels = append(rels, rel)
				case 2:
					shared.Lock()
					rels = append(rels, shared.Unlock)
				}
			}
			vsched.CtrSet(cR, int64(n))
			for i, rel := range rels {
				if r, ok := m.TryLock(true); ok {
					vsched.CtrSet(cW, 1)
					fail("exclusion", "TryLock(write) granted while %d of %d read holders have not released", n-i, n)
					r()
					return
				}
				vsched.CtrAdd(cR, -1)
				rel()
				if i >= 3 && i < n-3 {
					continue // (probe around both ends only; every release is still made)
				}
			}
			r, ok := m.TryLock(true)
			if !ok {
				fail("lock-leaked", "C01/C02: TryLock(write) refused after all %d read holders released", n)
				return
			}
			r()
		},
	})
}

func init() {
	eng.Register(&eng.Scenario{
		Name: "csync-release-effective", Props: []string{"C01", "C02"}, MustFinish: true, ObsNames: stdObs,
		Doc:   "Mutex / RWMutex (choice), lock taken through TryLock or Lock (choice): thread A releases and at once tries TryLock(write) again while thread B makes one TryLock attempt (any mode) at any moment: the holder stops holding at its first release call, so if B never acquired anything A's second attempt must succeed",
		Quick: eng.Bounds{PB: 2}, Thorough: eng.Bounds{PB: 4},
		Body: func() {
			bg := context.Background()
			viaTry := vsched.Choose(2) == 1
			const cOkA, cOkB = 200, 201
			if vsched.Choose(2) == 0 {
				var m csync.Mutex
				var rel func()
				if viaTry {
					rel, _ = m.TryLock()
				} else {
					rel, _ = m.Lock(bg)
				}
				acquired(true)
				T("A", func() {
					releasing(true)
					rel()
					r, ok := m.TryLock()
					if vsched.CtrSet(cOkA, b2i(ok)); ok {
						r()
					}
				})
				T("B", func() {
					r, ok := m.TryLock()
					if vsched.CtrSet(cOkB, b2i(ok)); ok {
						r()
					}
				})
			} else {
				var m csync.RWMutex
				hw := vsched.Choose(2) == 0
				bw := vsched.Choose(2) == 0
				var rel func()
				if viaTry {
					rel, _ = m.TryLock(hw)
				} else {
					rel, _ = m.Lock(bg, hw)
				}
				acquired(hw)
				T("A", func() {
					releasing(hw)
					rel()
					r, ok := m.TryLock(true)
					if vsched.CtrSet(cOkA, b2i(ok)); ok {
						r()
					}
				})
				T("B", func() {
					r, ok := m.TryLock(bw)
					if vsched.CtrSet(cOkB, b2i(ok)); ok {
						r()
					}
				})
			}
			vsched.Settle()
			if vsched.Ctr(cOkA) == 0 && vsched.Ctr(cOkB) == 0 {
				fail("held-after-release", "A released its lock and tried TryLock(write) at once: refused, although the only other thread never acquired the lock (its single TryLock was refused too): the lock outlived its holder's first release call")
			}
		},
	})
	eng.Register(&eng.Scenario{
		Name: "csync-two-rounds", Props: []string{"C02", "C01"}, MustFinish: true, ObsNames: stdObs,
		Doc:   "Mutex / RWMutex (choice), two rounds on one lock: round 1 - a cancellable waiter is parked behind a holder; the holder releases while the waiter's context is cancelled (every interleaving); round 2, once quiet - the lock is taken again (TryLock), a new waiter parks behind it, the holder releases: whatever round 1 left behind (a counter, a flag), the new waiter must be granted",
		Quick: eng.Bounds{PB: 2}, Thorough: eng.Bounds{PB: 3},
		Body: func() {
			bg := context.Background()
			ctx, cancel := context.WithCancel(bg)
			if vsched.Choose(2) == 0 {
				var m csync.Mutex
				rel, _ := m.Lock(bg)
				acquired(true)
				T("WC", func() { useMutex(&m, ctx, true) })
				vsched.Settle()
				T("H", func() { releasing(true); rel() })
				T("C", func() { cancel() })
				vsched.Settle()
				r2, ok := m.TryLock()
				if !ok {
					fail("lock-leaked", "round 2: TryLock refused on a mutex nobody holds")
					return
				}
				acquired(true)
				T("W3", func() { useMutex(&m, bg, false) })
				vsched.Settle()
				releasing(true)
				r2()
				finalProbeMutex(&m)
				return
			}
			var m csync.RWMutex
			hw := vsched.Choose(2) == 0
			rel, _ := m.Lock(bg, hw)
			acquired(hw)
			T("WC", func() { useRW(&m, ctx, true, true) })
			vsched.Settle()
			T("H", func() { releasing(hw); rel() })
			T("C", func() { cancel() })
			vsched.Settle()
			r2, ok := m.TryLock(true)
			if !ok {
				fail("lock-leaked", "round 2: TryLock(write) refused on an RWMutex nobody holds")
				return
			}
			acquired(true)
			T("W3", func() { useRW(&m, bg, true, false) })
			T("R3", func() { useRW(&m, bg, false, false) })
			vsched.Settle()
			releasing(true)
			r2()
			finalProbeRW(&m)
		},
	})
	eng.Register(&eng.Scenario{
		Name: "csync-cancel-trace", Props: []string{"C02", "C01"}, MustFinish: true, ObsNames: stdObs,
		Doc:   "RWMutex read-held by the main thread: thread A = Lock(write) with a context that is cancelled while it waits, then at once TryLock(read); thread B = TryLock(read) + release at any moment: A is the only writer there ever is, so once its Lock has returned context.Canceled the lock behaves as if that call had never been made - A's read attempt must be granted",
		Quick: eng.Bounds{PB: 2}, Thorough: eng.Bounds{PB: 4},
		Body: func() {
			bg := context.Background()
			var m csync.RWMutex
			rel, _ := m.Lock(bg, false)
			acquired(false)
			ctx, cancel := context.WithCancel(bg)
			T("A", func() {
				label("RWMutex.Lock(write)")
				r, err := m.Lock(ctx, true)
				label("")
				if err == nil {
					fail("exclusion", "Lock(write) was granted while the main thread holds a read lock")
					r()
					return
				}
				rr, ok := m.TryLock(false)
				if !ok {
					fail("C02.cancel-trace", "Lock(write) returned %v; the same goroutine's TryLock(read) right afterwards was refused although no writer holds or waits (it was the only writer): the cancelled call left a trace", err)
					return
				}
				rr()
			})
			T("B", func() { tryRW(&m, false, false) })
			T("C", func() { cancel() })
			vsched.Settle()
			releasing(false)
			rel()
			finalProbeRW(&m)
		},
	})
	eng.Register(&eng.Scenario{
		Name: "csync-shared-rlocker", Props: []string{"C01", "C02"}, MustFinish: true, ObsNames: stdObs,
		Doc:   "RWMutex: one RLocker() value shared by two goroutines (each Lock; hold; Unlock) and a writer (Lock or TryLock, choice): a reader and the writer never hold together, nobody stays parked, the lock ends free",
		Quick: eng.Bounds{PB: 3}, Thorough: eng.Bounds{PB: 4},
		Body: func() {
			bg := context.Background()
			var m csync.RWMutex
			rl := m.RLocker()
			wTry := vsched.Choose(2) == 1
			for i := 0; i < 2; i++ {
				T("G", func() {
					label("RLocker.Lock")
					rl.Lock()
					label("")
					acquired(false)
					vsched.Point()
					releasing(false)
					rl.Unlock()
				})
			}
			T("W", func() {
				if wTry {
					tryRW(&m, true, false)
				} else {
					useRW(&m, bg, true, false)
				}
			})
			finalProbeRW(&m)
		},
	})
	eng.Register(&eng.Scenario{
		Name: "csync-deadline", Props: []string{"C02", "C01"}, MustFinish: true, ObsNames: stdObs,
		Doc:   "Mutex and RWMutex: a holder behind a gate, waiters whose context expires (deadline context, not a cancel) while they are parked or on their way in; they must return context.Canceled and leave no trace",
		Quick: eng.Bounds{PB: 2}, Thorough: eng.Bounds{PB: 3},
		Body: func() {
			bg := context.Background()
			if vsched.Choose(2) == 0 {
				var m csync.Mutex
				ctx := newExpCtx(bg)
				g1 := &vsched.Gate{}
				phases(gates(g1))
				rel, _ := m.Lock(bg)
				acquired(true)
				T("H", func() { g1.Wait(); releasing(true); rel() })
				T("W1", func() { useMutex(&m, ctx, true) })
				T("W2", func() { useMutex(&m, bg, false) })
				T("E", func() { ctx.expire() })
				finalProbeMutex(&m)
				return
			}
			var m csync.RWMutex
			ctx := newExpCtx(bg)
			g1 := &vsched.Gate{}
			phases(gates(g1))
			hw := vsched.Choose(2) == 0
			rel, _ := m.Lock(bg, hw)
			acquired(hw)
			T("H", func() { g1.Wait(); releasing(hw); rel() })
			T("WC", func() { useRW(&m, ctx, true, true) })
			T("RC", func() { useRW(&m, ctx, false, false) })
			T("E", func() { ctx.expire() })
			finalProbeRW(&m)
		},
	})
	eng.Register(&eng.Scenario{
		Name: "csync-locker-misuse", Props: []string{"C01", "C02"}, MustFinish: true, ObsNames: stdObs,
		Doc:   "Mutex.Locker / RWMutex.Locker / RWMutex.RLocker (choice): one thread does Lock; Unlock; Unlock again (the documented panic is recovered); Lock; Unlock on one Locker value while another thread uses the lock directly: the refused Unlock changes nothing - the second Lock is granted, nobody is left parked and the lock ends up free",
		Quick: eng.Bounds{PB: 2}, Thorough: eng.Bounds{PB: 3},
		Body: func() {
			bg := context.Background()
			which := vsched.Choose(3)
			var m csync.Mutex
			var rw csync.RWMutex
			var l interface {
				Lock()
				Unlock()
			}
			write := true
			switch which {
			case 0:
				l = m.Locker()
			case 1:
				l = rw.Locker()
			case 2:
				l = rw.RLocker()
				write = false
			}
			T("K", func() {
				for i := 0; i < 2; i++ {
					label("Locker.Lock")
					l.Lock()
					label("")
					acquired(write)
					vsched.Point()
					releasing(write)
					l.Unlock()
					if i == 0 {
						func() {
							defer func() {
								if recover() == nil {
									fail("C01.double-unlock-accepted", "a second Unlock of the Locker did not panic")
								}
							}()
							l.Unlock()
						}()
					}
				}
			})
			if which == 0 {
				T("U", func() { useMutex(&m, bg, false) })
				finalProbeMutex(&m)
			} else {
				T("U", func() { useRW(&rw, bg, true, false) })
				finalProbeRW(&rw)
			}
		},
	})
}
