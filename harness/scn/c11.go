package scn

import (
	"context"
	"errors"
	"fmt"

	"github.com/aperturerobotics/util/promise"
	"github.com/aperturerobotics/util/zzverif/vsched"
	"verifharness/eng"
)

const (
	c11True   = iota // number of SetResult calls that returned true
	c11Winner        // 1+index of the setter that returned true
	c11Cancel        // awaiter ctx cancelled
	c11ChErr         // error sent on errCh
	c11ChClosed
	c11CancelCh      // cancelCh fired
	c11Set0          // +k: SetPromise(pk) was begun (container scenarios), k=1..3
	c11Phase    = 12 // pcontainer-clear: the removal of p1 has completed and the container is quiet
)

var (
	errRes = errors.New("result-error")
	errChE = errors.New("errch-error")
)

// result table: code -> error; value is 10*promise+code (never zero)
var resErrs = []error{nil, errRes, context.Canceled, context.DeadlineExceeded}

func errCode(err error) int64 {
	switch err {
	case nil:
		return 0
	case errRes:
		return 1
	case context.Canceled:
		return 2
	case context.DeadlineExceeded:
		return 3
	case errChE:
		return 4
	}
	return 9
}

// await kinds
const (
	aPlain = iota
	aErrCh
	aCancelCh
)

var aLabels = []string{"Await", "AwaitWithErrCh", "AwaitWithCancelCh"}

func doAwait(p promise.PromiseLike[int], kind int, ctx context.Context, errCh <-chan error, cancelCh <-chan struct{}) (int, error) {
	label(aLabels[kind])
	defer label("")
	switch kind {
	case aErrCh:
		return p.AwaitWithErrCh(ctx, errCh)
	case aCancelCh:
		return p.AwaitWithCancelCh(ctx, cancelCh)
	}
	return p.Await(ctx)
}

// checkAwait validates one await result. results[k] is the (code) of promise k's result or -1.
func checkAwait(id, kind int, v int, err error, container bool) {
	vsched.Observe(oRet, int64(id), int64(v), errCode(err))
	if v != 0 {
		return // completed by result: validated against the winner in Post
	}
	switch {
	case err == context.Canceled:
		ok := vsched.Ctr(c11Cancel) != 0 || (kind == aErrCh && vsched.Ctr(c11ChClosed) != 0) || (kind == aCancelCh && vsched.Ctr(c11CancelCh) != 0)
		if !ok {
			fail("C11.spurious-cancel", "%s returned (0, context.Canceled) although neither its context was cancelled nor its channel fired", aLabels[kind])
		}
	case err == errChE:
		if kind != aErrCh || vsched.Ctr(c11ChErr) == 0 {
			fail("C11.spurious-error", "%s returned the error-channel error although it was never sent", aLabels[kind])
		}
	case err == nil:
		// (0,nil): only a container AwaitWithCancelCh whose cancel channel fired documents this
		if !(container && kind == aCancelCh && vsched.Ctr(c11CancelCh) != 0) {
			fail("C11.empty-result", "%s returned (0,nil) without any result", aLabels[kind])
		}
	default:
		fail("C11.spurious-error", "%s returned (0,%v) which is no result of any promise", aLabels[kind], err)
	}
}

// promisePost: exactly one SetResult returned true; by-result awaits agree with that call.
func promisePost(nsetters int) func(r *vsched.Result) (string, string) {
	return func(r *vsched.Result) (string, string) {
		winner, ntrue := int64(-1), 0
		var setRet []vsched.Obs
		for _, o := range r.Obs {
			if o.Kind == oOp { // setter returned: A=index B=returned true C=code
				setRet = append(setRet, o)
				if o.B == 1 {
					ntrue++
					winner = o.A
				}
			}
		}
		if len(setRet) == nsetters && ntrue != 1 {
			return "C11.winner-count", fmt.Sprintf("%d SetResult calls returned true", ntrue)
		}
		if ntrue > 1 {
			return "C11.winner-count", fmt.Sprintf("%d SetResult calls returned true", ntrue)
		}
		for _, o := range r.Obs {
			if o.Kind == oRet && o.B != 0 { // by result
				k := o.B / 10
				code := o.B % 10
				if winner >= 0 && k != winner+1 {
					return "C11.wrong-result", fmt.Sprintf("await %d returned value %d but SetResult call %d won", o.A, o.B, winner)
				}
				if o.C != code {
					return "C11.wrong-result", fmt.Sprintf("await %d returned value %d with error code %d, the setter stored error code %d", o.A, o.B, o.C, code)
				}
			}
		}
		return "", ""
	}
}

func promiseBody(kinds []int, nsetters int, withCtxCancel bool) func() {
	return func() {
		bg := context.Background()
		p := promise.NewPromise[int]()
		ctx := bg
		var cancel context.CancelFunc
		if withCtxCancel {
			ctx, cancel = context.WithCancel(bg)
		}
		errCh := make(chan error, 1)
		cancelCh := make(chan struct{})
		// setter 0: nil or DeadlineExceeded (choice); setter 1: context.Canceled; setter 2: a plain error
		codes := make([]int, nsetters)
		for i := range codes {
			switch i {
			case 0:
				codes[i] = []int{0, 3}[vsched.Choose(2)]
			case 1:
				codes[i] = 2
			default:
				codes[i] = 1
			}
		}
		chAct := 0
		for _, k := range kinds {
			if k != aPlain {
				chAct = vsched.Choose(3) // 0 nothing, 1 send error / close cancelCh, 2 close errCh
			}
		}
		for i, k := range kinds {
			i, k := i, k
			T("A", func() {
				v, err := doAwait(p, k, ctx, errCh, cancelCh)
				checkAwait(i, k, v, err, false)
			})
		}
		for i := 0; i < nsetters; i++ {
			i := i
			T("S", func() {
				ok := p.SetResult(10*(i+1)+codes[i], resErrs[codes[i]])
				vsched.Observe(oOp, int64(i), b2i(ok), int64(codes[i]))
				if ok && vsched.CtrAdd(c11True, 1) > 1 {
					fail("C11.winner-count", "a second SetResult returned true")
				}
			})
		}
		if withCtxCancel {
			T("C", func() { vsched.CtrSet(c11Cancel, 1); cancel() })
		}
		if chAct != 0 {
			T("X", func() {
				for _, k := range kinds {
					switch {
					case k == aErrCh && chAct == 1:
						vsched.CtrSet(c11ChErr, 1)
						errCh <- errChE
					case k == aErrCh && chAct == 2:
						vsched.CtrSet(c11ChClosed, 1)
						close(errCh)
					case k == aCancelCh:
						vsched.CtrSet(c11CancelCh, 1)
						close(cancelCh)
					}
				}
			})
		}
		// a late awaiter after everything settled must return the stored result immediately
		vsched.Settle()
		v, err := p.Await(bg)
		checkAwait(99, aPlain, v, err, false)
		if v == 0 {
			fail("C11.no-result", "Await after SetResult returned no value")
		}
	}
}

// ---- PromiseContainer ----

func containerBody(kinds []int, withCtxCancel, allowThird bool) func() {
	return func() {
		bg := context.Background()
		c := promise.NewPromiseContainer[int]()
		p1, p2 := promise.NewPromise[int](), promise.NewPromise[int]()
		ctx := bg
		var cancel context.CancelFunc
		if withCtxCancel {
			ctx, cancel = context.WithCancel(bg)
		}
		errCh := make(chan error, 1)
		cancelCh := make(chan struct{})
		code1, code2, code3 := vsched.Choose(len(resErrs)), []int{0, 2}[vsched.Choose(2)], 0
		third := 0 // 0: nothing, 1: container.SetResult, 2: SetPromise(nil)
		if allowThird {
			third = vsched.Choose(3)
		}
		if third == 1 {
			code3 = []int{0, 2}[vsched.Choose(2)]
		}
		resolveFirst := vsched.Choose(2) == 1
		for i, k := range kinds {
			i, k := i, k
			T("A", func() {
				v, err := doAwait(c, k, ctx, errCh, cancelCh)
				checkAwait(i, k, v, err, true)
				if v != 0 {
					// by result: the promise it belongs to must have been installed before
					pk := v / 10
					if vsched.Ctr(c11Set0+pk) == 0 {
						fail("C11.result-of-foreign-promise", "container await returned value %d of promise %d, which was never installed", v, pk)
					}
					if errCode(err) != int64(v%10) {
						fail("C11.wrong-result", "container await returned value %d with error code %d", v, errCode(err))
					}
				}
			})
		}
		// (each promise gets exactly one SetResult call, from its owner: it is the first, so it returns true -
		// the container never consumes the one-shot result of a promise handed to it)
		own := func(p *promise.Promise[int], v int, err error) {
			if !p.SetResult(v, err) {
				fail("C11.winner-count", "the only SetResult call on promise %d returned false", v/10)
			}
		}
		T("P1", func() {
			if resolveFirst {
				own(p1, 10+code1, resErrs[code1])
			}
			vsched.CtrSet(c11Set0+1, 1)
			c.SetPromise(p1)
			if !resolveFirst {
				own(p1, 10+code1, resErrs[code1])
			}
		})
		T("P2", func() {
			vsched.CtrSet(c11Set0+2, 1)
			c.SetPromise(p2)
			own(p2, 20+code2, resErrs[code2])
		})
		if third != 0 {
			T("P3", func() {
				if third == 1 {
					vsched.CtrSet(c11Set0+3, 1)
					if !c.SetResult(30+code3, resErrs[code3]) {
						fail("C11.container-setresult", "PromiseContainer.SetResult returned false")
					}
				} else {
					c.SetPromise(nil)
				}
			})
		}
		if withCtxCancel {
			T("C", func() { vsched.CtrSet(c11Cancel, 1); cancel() })
		}
		vsched.Settle()
		// the promise that is current now: if it has a result nobody may still be parked
		cur, _ := c.GetPromise()
		resolved := cur != nil // p1, p2 and container results are all resolved by now
		for k, l := range aLabels {
			if n := vsched.CountParked(l); n > 0 {
				if resolved {
					fail("C11.awaiter-stuck", "%d container awaiter(s) parked in %s although the current promise has a result", n, l)
				} else if vsched.Ctr(c11Cancel) != 0 {
					fail("C11.awaiter-stuck", "%d container awaiter(s) parked in %s although their context is cancelled", n, l)
				}
				_ = k
			}
		}
	}
}

// containerChan: the caller's error / cancel channel fires while a promise is pending.
func containerChanBody(kind int, pending bool) func() { return chanBody(kind, pending, false) }

// chanBody: with plain the awaited object is an unresolved Promise itself (nobody ever resolves it).
func chanBody(kind int, pending, plain bool) func() {
	return func() {
		bg := context.Background()
		var c promise.PromiseLike[int]
		if plain {
			c = promise.NewPromise[int]()
		} else {
			pc := promise.NewPromiseContainer[int]()
			if pending {
				pc.SetPromise(promise.NewPromise[int]())
			}
			c = pc
		}
		errCh := make(chan error, 1)
		cancelCh := make(chan struct{})
		act := vsched.Choose(2)
		T("A", func() {
			v, err := doAwait(c, kind, bg, errCh, cancelCh)
			checkAwait(0, kind, v, err, !plain)
		})
		T("X", func() {
			if kind == aErrCh {
				if act == 0 {
					vsched.CtrSet(c11ChErr, 1)
					errCh <- errChE
				} else {
					vsched.CtrSet(c11ChClosed, 1)
					close(errCh)
				}
			} else {
				vsched.CtrSet(c11CancelCh, 1)
				close(cancelCh)
			}
		})
		vsched.Settle()
		if n := vsched.CountParked(aLabels[kind]); n > 0 {
			fail("C11.channel-ignored", "%s still parked after its channel fired (plain promise=%v, pending promise=%v)", aLabels[kind], plain, pending)
		}
	}
}

func init() {
	eng.Register(&eng.Scenario{
		Name: "pcontainer-aba", Props: []string{"C11"}, ObsNames: stdObs,
		Doc:   "PromiseContainer holding unresolved p1: an awaiter (Await / AwaitWithErrCh / AwaitWithCancelCh, choice) is blocked; another thread does SetPromise(p2); SetPromise(p1) and only then resolves p1: the awaiter must return p1's result and nothing else",
		Quick: eng.Bounds{PB: 3}, Thorough: eng.Bounds{PB: 5},
		Body: func() {
			bg := context.Background()
			c := promise.NewPromiseContainer[int]()
			p1, p2 := promise.NewPromise[int](), promise.NewPromise[int]()
			vsched.CtrSet(c11Set0+1, 1)
			c.SetPromise(p1)
			kind := vsched.Choose(3)
			code := []int{0, 2}[vsched.Choose(2)]
			errCh := make(chan error, 1)
			cancelCh := make(chan struct{})
			T("A", func() {
				v, err := doAwait(c, kind, bg, errCh, cancelCh)
				checkAwait(0, kind, v, err, true)
				if v != 10+code || errCode(err) != int64(code) {
					fail("C11.wrong-result", "container await returned (%d,%v) but the current promise was resolved with (%d, code %d)", v, err, 10+code, code)
				}
			})
			T("S", func() {
				vsched.CtrSet(c11Set0+2, 1)
				c.SetPromise(p2)
				c.SetPromise(p1)
				vsched.Point()
				p1.SetResult(10+code, resErrs[code])
			})
			vsched.Settle()
			if n := vsched.CountParked(aLabels[kind]); n > 0 {
				fail("C11.awaiter-stuck", "container awaiter still parked although the current promise has a result")
			}
		},
	})
	eng.Register(&eng.Scenario{
		Name: "pcontainer-clear", Props: []string{"C11"}, ObsNames: stdObs,
		Doc:   "PromiseContainer holding unresolved p1 with a blocked awaiter (Await / AwaitWithErrCh / AwaitWithCancelCh, choice): SetPromise(nil) or SetPromise(p2 unresolved) (choice); once quiet p1 is resolved: the awaiter must not return the removed promise's result; then container.SetResult / p2.SetResult: the awaiter returns that result",
		Quick: eng.Bounds{PB: 3}, Thorough: eng.Bounds{PB: 5},
		Body: func() {
			bg := context.Background()
			c := promise.NewPromiseContainer[int]()
			p1, p2 := promise.NewPromise[int](), promise.NewPromise[int]()
			vsched.CtrSet(c11Set0+1, 1)
			c.SetPromise(p1)
			kind := vsched.Choose(3)
			withP2 := vsched.Choose(2) == 1
			code := []int{0, 2}[vsched.Choose(2)]
			errCh := make(chan error, 1)
			cancelCh := make(chan struct{})
			T("A", func() {
				v, err := doAwait(c, kind, bg, errCh, cancelCh)
				checkAwait(0, kind, v, err, true)
				if v/10 == 1 && vsched.Ctr(c11Phase) >= 1 {
					fail("C11.result-of-removed-promise", "container await returned (%d,%v): the result of a promise that had been removed from the container (and the container was quiet) before it was resolved", v, err)
				}
				if v/10 != 1 && (v != 30+code || errCode(err) != int64(code)) {
					fail("C11.wrong-result", "container await returned (%d,%v) but the current promise was resolved with (%d, code %d)", v, err, 30+code, code)
				}
			})
			if vsched.Choose(2) == 1 {
				vsched.Settle() // the awaiter is blocked on p1
			}
			if withP2 {
				c.SetPromise(p2)
			} else {
				c.SetPromise(nil)
			}
			vsched.Settle()
			vsched.CtrSet(c11Phase, 1)
			p1.SetResult(11, nil)
			vsched.Settle()
			vsched.CtrSet(c11Set0+3, 1)
			if withP2 {
				p2.SetResult(30+code, resErrs[code])
			} else {
				c.SetResult(30+code, resErrs[code])
			}
			vsched.Settle()
			if n := vsched.CountParked(aLabels[kind]); n > 0 {
				fail("C11.awaiter-stuck", "container awaiter still parked although the current promise has a result")
			}
		},
	})
	eng.Register(&eng.Scenario{
		Name: "promise-preresolved", Props: []string{"C11"}, MustFinish: true, ObsNames: stdObs,
		Doc:   "Promise constructed already resolved (NewPromiseWithResult(v,nil|E|Canceled) or NewPromiseWithErr(E|nil), choice): two later SetResult calls must both return false and every kind of await (incl. one with an already-cancelled context) returns the constructor's pair",
		Quick: eng.Bounds{PB: 2}, Thorough: eng.Bounds{PB: 3},
		Body: func() {
			bg := context.Background()
			var p *promise.Promise[int]
			wantV, wantC := 11, int64(0)
			switch vsched.Choose(5) {
			case 4:
				// a nil error is a result like any other: resolved with (zero, nil)
				p = promise.NewPromiseWithErr[int](nil)
				wantV, wantC = 0, 0
			case 0:
				p = promise.NewPromiseWithResult(11, nil)
			case 1:
				p = promise.NewPromiseWithResult(11, errRes)
				wantC = 1
			case 2:
				p = promise.NewPromiseWithResult(11, context.Canceled)
				wantC = 2
			case 3:
				p = promise.NewPromiseWithErr[int](errRes)
				wantV, wantC = 0, 1
			}
			errCh := make(chan error, 1)
			cancelCh := make(chan struct{})
			dead, cancel := context.WithCancel(bg)
			deadAwaiter := vsched.Choose(2) == 1
			if deadAwaiter {
				cancel()
			}
			for i, k := range []int{aPlain, aErrCh, aCancelCh} {
				i, k := i, k
				T("A", func() {
					ctx := bg
					if deadAwaiter && i == 0 {
						ctx = dead
					}
					v, err := doAwait(p, k, ctx, errCh, cancelCh)
					vsched.Observe(oRet, int64(i), int64(v), errCode(err))
					if deadAwaiter && i == 0 && v == 0 && err == context.Canceled {
						return // an await with a cancelled context may report that instead
					}
					if v != wantV || errCode(err) != wantC {
						fail("C11.wrong-result", "%s on a promise constructed with (%d, code %d) returned (%d, %v)", aLabels[k], wantV, wantC, v, err)
					}
				})
			}
			for i := 0; i < 2; i++ {
				i := i
				T("S", func() {
					if p.SetResult(20+i, nil) {
						fail("C11.winner-count", "SetResult on a promise that was constructed with a result returned true")
					}
				})
			}
			vsched.Settle()
			cancel()
		},
	})
	eng.Register(&eng.Scenario{
		Name: "pcontainer-setresult-order", Props: []string{"C11"}, ObsNames: stdObs,
		Doc:   "PromiseContainer: thread P does SetResult(31); Await; SetResult(32); Await while thread Q takes the container's lock (GetPromise x3) at any moment: SetResult has taken effect when it returns true, so each Await by P returns the result P set last",
		Quick: eng.Bounds{PB: 3}, Thorough: eng.Bounds{PB: 5},
		Body: func() {
			bg := context.Background()
			c := promise.NewPromiseContainer[int]()
			kind := vsched.Choose(3)
			T("P", func() {
				for _, want := range []int{31, 32} {
					if !c.SetResult(want, nil) {
						fail("C11.container-setresult", "PromiseContainer.SetResult returned false")
					}
					v, err := doAwait(c, kind, bg, nil, nil)
					vsched.Observe(oRet, int64(want), int64(v), errCode(err))
					if v != want || err != nil {
						fail("C11.wrong-result", "container %s after SetResult(%d,nil) had returned true returned (%d,%v)", aLabels[kind], want, v, err)
					}
				}
			})
			T("Q", func() {
				for i := 0; i < 3; i++ {
					c.GetPromise()
				}
			})
			vsched.Settle()
			if n := vsched.CountParked(aLabels[kind]); n > 0 {
				fail("C11.awaiter-stuck", "container awaiter parked although SetResult had returned true before the await began")
			}
		},
	})
	eng.Register(&eng.Scenario{
		Name: "promise-set3", Props: []string{"C11"}, MustFinish: true, ObsNames: stdObs,
		Doc:   "Promise: 3 concurrent SetResult calls (each result chosen from {(v,nil),(v,E),(v,Canceled),(v,DeadlineExceeded)}) and 2 plain awaiters; exactly one winner, awaiters see the winner's pair",
		Quick: eng.Bounds{PB: 2}, Thorough: eng.Bounds{PB: 4},
		Body: promiseBody([]int{aPlain, aPlain}, 3, false), Post: promisePost(3),
	})
	eng.Register(&eng.Scenario{
		Name: "promise-await-errch", Props: []string{"C11"}, MustFinish: true, ObsNames: stdObs,
		Doc:   "Promise: 1 setter; awaiters Await and AwaitWithErrCh with a cancellable context, canceller and a channel thread (nothing | send error | close errCh)",
		Quick: eng.Bounds{PB: 2}, Thorough: eng.Bounds{PB: 3},
		Body: promiseBody([]int{aPlain, aErrCh}, 1, true), Post: promisePost(1),
	})
	eng.Register(&eng.Scenario{
		Name: "promise-await-cancelch", Props: []string{"C11"}, MustFinish: true, ObsNames: stdObs,
		Doc:   "Promise: 2 setters; AwaitWithCancelCh awaiter with a cancellable context, canceller and a thread closing the cancel channel (or not)",
		Quick: eng.Bounds{PB: 2}, Thorough: eng.Bounds{PB: 3},
		Body: promiseBody([]int{aCancelCh}, 2, true), Post: promisePost(2),
	})
	eng.Register(&eng.Scenario{
		Name: "promise-errch", Props: []string{"C11"}, MustFinish: true, ObsNames: stdObs,
		Doc:   "Promise: 1 setter, AwaitWithErrCh awaiter, channel thread, canceller, deeper bound",
		Quick: eng.Bounds{PB: 3}, Thorough: eng.Bounds{PB: 5},
		Body: promiseBody([]int{aErrCh}, 1, true), Post: promisePost(1),
	})
	eng.Register(&eng.Scenario{
		Name: "pcontainer-follow", Props: []string{"C11"}, ObsNames: stdObs,
		Doc:   "PromiseContainer: Await awaiter while promises p1, p2 are installed and resolved concurrently (p1 resolved before or after installing), optional container.SetResult / SetPromise(nil); every result code incl. context.Canceled / DeadlineExceeded",
		Quick: eng.Bounds{PB: 1}, Thorough: eng.Bounds{PB: 2},
		Body: containerBody([]int{aPlain}, false, true),
	})
	eng.Register(&eng.Scenario{
		Name: "pcontainer-kinds", Props: []string{"C11"}, ObsNames: stdObs,
		Doc:   "PromiseContainer: an AwaitWithErrCh or AwaitWithCancelCh awaiter (choice; channels never fire) with a cancellable context + canceller, replacements as in pcontainer-follow",
		Quick: eng.Bounds{PB: 1}, Thorough: eng.Bounds{PB: 2},
		Body: func() {
			containerBody([]int{[]int{aErrCh, aCancelCh}[vsched.Choose(2)]}, true, false)()
		},
	})
	eng.Register(&eng.Scenario{
		Name: "pcontainer-plain-cancel", Props: []string{"C11"}, ObsNames: stdObs,
		Doc:   "PromiseContainer: a plain Await awaiter with a cancellable context + canceller, while promises are installed and resolved (or the container is still empty / emptied again by SetPromise(nil)): a cancelled await returns (zero, context.Canceled), never a result nobody set",
		Quick: eng.Bounds{PB: 1}, Thorough: eng.Bounds{PB: 2},
		Body: containerBody([]int{aPlain}, true, true),
	})
	eng.Register(&eng.Scenario{
		Name: "pcontainer-two-awaiters", Props: []string{"C11"}, ObsNames: stdObs,
		Doc:   "PromiseContainer: two awaiters at once (Await and AwaitWithCancelCh) entering while the container is still empty, then promises p1, p2 are installed and resolved: both return the current promise's result",
		Quick: eng.Bounds{PB: 1}, Thorough: eng.Bounds{PB: 2},
		Body: containerBody([]int{aPlain, aCancelCh}, false, false),
	})
	eng.Register(&eng.Scenario{
		Name: "pcontainer-nested", Props: []string{"C11"}, MustFinish: true, ObsNames: stdObs,
		Doc:   "PromiseContainer holding another PromiseContainer (a PromiseLike like any other) which holds an unresolved promise (or nothing; choice): an awaiter on the outer container (every await kind, choice); then the inner container is given a result (SetResult, or SetPromise of a resolved promise; choice): the outer awaiter returns that result - the outer container follows the inner one, not a snapshot of it",
		Quick: eng.Bounds{PB: 2}, Thorough: eng.Bounds{PB: 3},
		Body: func() {
			bg := context.Background()
			outer, inner := promise.NewPromiseContainer[int](), promise.NewPromiseContainer[int]()
			if vsched.Choose(2) == 1 {
				inner.SetPromise(promise.NewPromise[int]())
			}
			outer.SetPromise(inner)
			kind := vsched.Choose(3)
			how := vsched.Choose(2)
			T("A", func() {
				v, err := doAwait(outer, kind, bg, nil, nil)
				if v != 7 || err != nil {
					fail("C11.wrong-result", "outer %s returned (%d,%v), the inner container was given (7,nil)", aLabels[kind], v, err)
				}
			})
			T("S", func() {
				if how == 0 {
					inner.SetResult(7, nil)
				} else {
					inner.SetPromise(promise.NewPromiseWithResult(7, nil))
				}
			})
			vsched.Settle()
			if n := vsched.CountParked(aLabels[kind]); n > 0 {
				fail("C11.awaiter-stuck", "the inner container holds a resolved promise but the awaiter on the outer container is still parked")
			}
		},
	})
	eng.Register(&eng.Scenario{
		Name: "pcontainer-errch-reuse", Props: []string{"C11"}, ObsNames: stdObs,
		Doc:   "PromiseContainer: one caller awaits twice with the same error channel: the first AwaitWithErrCh returns the current promise's result; the container is emptied; the second AwaitWithErrCh must return the error that is then pushed to the channel - nothing left behind by the first await may consume it",
		Quick: eng.Bounds{PB: 2}, Thorough: eng.Bounds{PB: 3},
		Body: func() {
			bg := context.Background()
			c := promise.NewPromiseContainer[int]()
			c.SetResult(5, nil)
			errCh := make(chan error, 1)
			if v, err := c.AwaitWithErrCh(bg, errCh); v != 5 || err != nil {
				fail("C11.wrong-result", "first AwaitWithErrCh returned (%d,%v), the container holds (5,nil)", v, err)
				return
			}
			c.SetPromise(nil)
			vsched.Settle()
			T("A", func() {
				label(aLabels[aErrCh])
				v, err := c.AwaitWithErrCh(bg, errCh)
				label("")
				if v != 0 || err != errChE {
					fail("C11.wrong-result", "second AwaitWithErrCh (empty container) returned (%d,%v), want the error pushed to its channel", v, err)
				}
			})
			T("X", func() { vsched.CtrSet(c11ChErr, 1); errCh <- errChE })
			vsched.Settle()
			if n := vsched.CountParked(aLabels[aErrCh]); n > 0 {
				fail("C11.channel-ignored", "an error was pushed to the awaiter's error channel (empty container) but the awaiter is still parked: something else consumed it")
			}
		},
	})
	eng.Register(&eng.Scenario{
		Name: "promise-chan-only", Props: []string{"C11"}, ObsNames: stdObs,
		Doc:   "Promise that nobody resolves: AwaitWithErrCh must return when the error channel delivers or closes, AwaitWithCancelCh when the cancel channel closes (choice); the wake-up may not be swallowed",
		Quick: eng.Bounds{PB: 3}, Thorough: eng.Bounds{PB: 5},
		Body: func() { chanBody([]int{aErrCh, aCancelCh}[vsched.Choose(2)], false, true)() },
	})
	eng.Register(&eng.Scenario{
		Name: "pcontainer-errch-empty", Props: []string{"C11"}, ObsNames: stdObs,
		Doc:   "PromiseContainer with no promise: AwaitWithErrCh must return when the error channel delivers or closes",
		Quick: eng.Bounds{PB: 3}, Thorough: eng.Bounds{PB: 5},
		Body: containerChanBody(aErrCh, false),
	})
	eng.Register(&eng.Scenario{
		Name: "pcontainer-cancelch-empty", Props: []string{"C11"}, ObsNames: stdObs,
		Doc:   "PromiseContainer with no promise: AwaitWithCancelCh must return when the cancel channel closes",
		Quick: eng.Bounds{PB: 3}, Thorough: eng.Bounds{PB: 5},
		Body: containerChanBody(aCancelCh, false),
	})
	eng.Register(&eng.Scenario{
		Name: "pcontainer-errch-pending", Props: []string{"C11"}, ObsNames: stdObs,
		Doc:   "PromiseContainer holding an unresolved promise: AwaitWithErrCh must return when the error channel delivers or closes",
		Quick: eng.Bounds{PB: 3}, Thorough: eng.Bounds{PB: 5},
		Body: containerChanBody(aErrCh, true),
	})
	eng.Register(&eng.Scenario{
		Name: "pcontainer-cancelch-pending", Props: []string{"C11"}, ObsNames: stdObs,
		Doc:   "PromiseContainer holding an unresolved promise: AwaitWithCancelCh must return when the cancel channel closes",
		Quick: eng.Bounds{PB: 3}, Thorough: eng.Bounds{PB: 5},
		Body: containerChanBody(aCancelCh, true),
	})
}
