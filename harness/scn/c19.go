package scn

import (
	"bytes"
	"fmt"
	"io"

	"github.com/aperturerobotics/util/commonprefix"
	"github.com/aperturerobotics/util/padding"
	"github.com/aperturerobotics/util/prng"
	"github.com/aperturerobotics/util/zzverif/vsched"
	"verifharness/eng"
)

func catch(f func()) (p any) {
	defer func() { p = recover() }()
	f()
	return nil
}

func fillBuf(b []byte, pattern int) {
	for i := range b {
		switch pattern {
		case 0:
			b[i] = 0
		case 1:
			b[i] = 0xFF
		default:
			b[i] = byte(i*7 + 1)
		}
	}
}

func refPrefix(strs []string) string {
	if len(strs) == 0 {
		return ""
	}
	p := strs[0]
	for _, s := range strs[1:] {
		n := 0
		for n < len(p) && n < len(s) && p[n] == s[n] {
			n++
		}
		p = p[:n]
	}
	return p
}

func init() {
	eng.Register(&eng.Scenario{
		Name: "padding-roundtrip", Props: []string{"C19"}, NoRace: true,
		Doc: "padding: every message length 0..130 x spare capacity 0..40 x fill {0x00,0xFF,ramp}: PadInPlace yields a positive multiple of 32 that starts with the message, UnpadInPlace returns exactly the message",
		Direct: func(rep *eng.DirectReport, shard, nshards int, thorough bool) {
			maxLen := 130
			if thorough {
				maxLen = 520
			}
			idx := 0
			for n := 0; n <= maxLen; n++ {
				for spare := 0; spare <= 40; spare++ {
					for pat := 0; pat < 3; pat++ {
						idx++
						if idx%nshards != shard {
							continue
						}
						rep.Cases++
						in := fmt.Sprintf("len=%d spare=%d fill=%d", n, spare, pat)
						buf := make([]byte, n, n+spare)
						fillBuf(buf, pat)
						garbage := buf[:cap(buf)]
						for i := n; i < len(garbage); i++ {
							garbage[i] = 0xAA
						}
						orig := append([]byte{}, buf...)
						var padded, unp []byte
						var err error
						if p := catch(func() { padded = padding.PadInPlace(buf) }); p != nil {
							rep.Fail("C19.pad-panic", fmt.Sprint("PadInPlace panicked: ", p), in)
							continue
						}
						if len(padded) == 0 || len(padded)%32 != 0 {
							rep.Fail("C19.pad-length", fmt.Sprintf("padded length %d is not a positive multiple of 32", len(padded)), in)
							continue
						}
						if len(padded) < n || !bytes.Equal(padded[:n], orig) {
							rep.Fail("C19.pad-prefix", "padded data does not start with the message", in)
							continue
						}
						if len(padded) >= n+1+32 {
							rep.Fail("C19.pad-length", fmt.Sprintf("padded length %d for a %d byte message wastes a whole block", len(padded), n), in)
							continue
						}
						if p := catch(func() { unp, err = padding.UnpadInPlace(padded) }); p != nil {
							rep.Fail("C19.unpad-panic", fmt.Sprint("UnpadInPlace panicked on padded data: ", p), in)
							continue
						}
						if err != nil || !bytes.Equal(unp, orig) {
							rep.Fail("C19.roundtrip", fmt.Sprintf("UnpadInPlace(PadInPlace(x)) = (%d bytes, %v), want the %d byte message", len(unp), err, n), in)
							continue
						}
						if n%32 == 31 || n%32 == 0 || spare >= 32 {
							rep.Nontrivial++
						}
						rep.Class(fmt.Sprintf("pad=%d/inplace=%v", len(padded)-n-1, cap(buf) >= len(padded)))
						if n == 31 && spare == 1 && pat == 2 {
							rep.Sample(in + fmt.Sprintf(" -> padded %d bytes, trailer %d", len(padded), padded[len(padded)-1]))
						}
					}
				}
			}
		},
	})
	eng.Register(&eng.Scenario{
		Name: "unpad-any", Props: []string{"C19"}, NoRace: true,
		Doc: "padding: UnpadInPlace on every input length 0..130 x every trailer byte 0..255 x 2 fills: returns an error or a prefix of the input, never panics",
		Direct: func(rep *eng.DirectReport, shard, nshards int, thorough bool) {
			maxLen := 130
			if thorough {
				maxLen = 600
			}
			idx := 0
			for n := 0; n <= maxLen; n++ {
				for last := 0; last < 256; last++ {
					if n == 0 && last > 0 {
						break
					}
					for pat := 1; pat < 3; pat++ {
						idx++
						if idx%nshards != shard {
							continue
						}
						rep.Cases++
						in := fmt.Sprintf("len=%d trailer=%d fill=%d", n, last, pat)
						buf := make([]byte, n)
						fillBuf(buf, pat)
						if n > 0 {
							buf[n-1] = byte(last)
						}
						orig := append([]byte{}, buf...)
						var out []byte
						var err error
						if p := catch(func() { out, err = padding.UnpadInPlace(buf) }); p != nil {
							rep.Fail("C19.unpad-panic", fmt.Sprint("UnpadInPlace panicked: ", p), in)
							continue
						}
						if err == nil {
							if len(out) > n || !bytes.Equal(out, orig[:len(out)]) {
								rep.Fail("C19.unpad-overread", "UnpadInPlace returned data that is not a prefix of its input", in)
								continue
							}
							if len(out) != n-1-last {
								rep.Fail("C19.unpad-length", fmt.Sprintf("UnpadInPlace returned %d bytes for trailer %d on %d bytes", len(out), last, n), in)
								continue
							}
							rep.Nontrivial++
							rep.Class("ok")
						} else {
							rep.Class("error")
						}
						if n == 32 && last == 31 && pat == 1 {
							rep.Sample(in + fmt.Sprintf(" -> %d bytes, err=%v", len(out), err))
						}
					}
				}
			}
		},
	})
	eng.Register(&eng.Scenario{
		Name: "commonprefix", Props: []string{"C19"}, NoRace: true,
		Doc: "commonprefix: every tuple of 1..3 strings of length <=3 over the bytes {a, b, 0xC3, 0xA9, 0x80} (plus the empty tuple, plus unsorted 10-tuples sharing a prefix): Prefix leaves its arguments alone and equals the byte-wise longest common prefix, TrimPrefix removes exactly it",
		Direct: func(rep *eng.DirectReport, shard, nshards int, thorough bool) {
			alpha := []byte{'a', 'b', 0xC3, 0xA9, 0x80}
			maxLen := 3
			var all []string
			var gen func(cur []byte)
			gen = func(cur []byte) {
				all = append(all, string(cur))
				if len(cur) == maxLen {
					return
				}
				for _, c := range alpha {
					gen(append(append([]byte{}, cur...), c))
				}
			}
			gen(nil)
			check := func(idx int, strs []string) {
				if idx%nshards != shard {
					return
				}
				rep.Cases++
				in := fmt.Sprintf("%q", strs)
				want := refPrefix(strs)
				var got string
				if p := catch(func() { got = commonprefix.Prefix(strs...) }); p != nil {
					rep.Fail("C19.prefix-panic", fmt.Sprint("Prefix panicked: ", p), in)
					return
				}
				if got != want {
					rep.Fail("C19.prefix", fmt.Sprintf("Prefix = %q, longest common prefix is %q", got, want), in)
					return
				}
				if now := fmt.Sprintf("%q", strs); now != in {
					rep.Fail("C19.prefix", fmt.Sprintf("Prefix changed its arguments (the caller's slice) to %s", now), in)
					return
				}
				cp := append([]string{}, strs...)
				if p := catch(func() { commonprefix.TrimPrefix(cp...) }); p != nil {
					rep.Fail("C19.prefix-panic", fmt.Sprint("TrimPrefix panicked: ", p), in)
					return
				}
				for i := range cp {
					if cp[i] != strs[i][len(want):] {
						rep.Fail("C19.trimprefix", fmt.Sprintf("TrimPrefix turned %q into %q, want %q", strs[i], cp[i], strs[i][len(want):]), in)
						return
					}
				}
				if want != "" {
					rep.Nontrivial++
				}
				rep.Class(fmt.Sprintf("n=%d/prefix=%d", len(strs), len(want)))
				if len(strs) == 2 && strs[0] == "\xc3\xa9a" && strs[1] == "\xc3\xa9b" {
					rep.Sample(in + fmt.Sprintf(" -> %q", got))
				}
			}
			check(0, nil)
			idx := 1
			for _, a := range all {
				check(idx, []string{a})
				idx++
				for _, b := range all {
					check(idx, []string{a, b})
					idx++
					for _, c := range all {
						check(idx, []string{a, b, c})
						idx++
					}
				}
			}
			// long argument lists (10 strings, not in sorted order) sharing a prefix
			for i := 0; i < len(all); i += 5 {
				var t []string
				for j := 9; j >= 0; j-- {
					t = append(t, "\xc3"+all[i]+all[(i+j*11)%len(all)])
				}
				check(idx, t)
				idx++
			}
		},
	})
	eng.Register(&eng.Scenario{
		Name: "prng-chunking", Props: []string{"C19"}, NoRace: true,
		Doc: "prng: for 3 seeds, every composition of a 16-byte read into chunks (2^15) and every two-chunk split of a 40-byte read yield the same stream as one big read; equal seeds (also the empty argument list, built repeatedly and interleaved) give equal sources and readers, zero-length reads change nothing",
		Direct: func(rep *eng.DirectReport, shard, nshards int, thorough bool) {
			seeds := [][]byte{nil, []byte("seed-a"), {0x80, 0xFF, 0x00}}
			total := 16
			if thorough {
				total = 20
			}
			// no seed data at all (an empty argument list, also when spread from a nil slice): every build
			// starts the same stream afresh, equal to the stream of one empty seed
			if shard == 0 {
				rep.Cases++
				var none [][]byte
				e1, e2 := prng.BuildSeededRand(), prng.BuildSeededRand(none...)
				a1, a2 := e1.Uint64(), e1.Uint64()
				b1 := e2.Uint64()
				e3 := prng.BuildSeededRand()
				c1, c2 := e3.Uint64(), e3.Uint64()
				if a1 != b1 || a1 != c1 || a2 != c2 {
					rep.Fail("C19.prng-seed", "sources built with no seed data are not reproducible: the n-th build does not replay the stream of the first", "BuildSeededRand() x3")
				}
				if z := prng.BuildSeededRand(nil).Uint64(); z != a1 {
					rep.Fail("C19.prng-seed", "BuildSeededRand() and BuildSeededRand(nil) hash the same (empty) data but give different streams", "BuildSeededRand(), BuildSeededRand(nil)")
				}
				r1, r2 := make([]byte, 24), make([]byte, 24)
				rd1 := prng.BuildSeededReader()
				io.ReadFull(rd1, r1[:8])
				rd2 := prng.BuildSeededReader()
				io.ReadFull(rd2, r2[:8])
				io.ReadFull(rd1, r1[8:])
				io.ReadFull(rd2, r2[8:])
				if !bytes.Equal(r1, r2) {
					rep.Fail("C19.prng-seed", "two interleaved readers built with no seed data give different streams", "BuildSeededReader() x2")
				}
			}
			// seed parts that are views into one caller-owned buffer (the first one with spare capacity, the
			// others out of layout order): same stream as independent copies, and the buffer is left alone
			if shard == 0 {
				rep.Cases++
				rec := []byte("0123456789abcdefghijklmnopqrst")
				orig := append([]byte{}, rec...)
				views := [][]byte{rec[0:5], rec[15:], rec[5:15]}
				var copies [][]byte
				for _, v := range views {
					copies = append(copies, append([]byte{}, v...))
				}
				a, b := prng.BuildSeededRand(views...), prng.BuildSeededRand(copies...)
				if a.Uint64() != b.Uint64() || a.Uint64() != b.Uint64() {
					rep.Fail("C19.prng-seed", "seed parts that are sub-slices of one buffer give a different stream than equal independent slices", "views into one buffer")
				}
				if !bytes.Equal(rec, orig) {
					rep.Fail("C19.prng-seed", "BuildSeededRand modified the caller's seed buffer", "views into one buffer")
				}
				r1, r2 := make([]byte, 16), make([]byte, 16)
				io.ReadFull(prng.BuildSeededReader(views...), r1)
				io.ReadFull(prng.BuildSeededReader(copies...), r2)
				if !bytes.Equal(r1, r2) || !bytes.Equal(rec, orig) {
					rep.Fail("C19.prng-seed", "BuildSeededReader: seed parts sharing a buffer give a different stream, or the buffer was modified", "views into one buffer")
				}
			}
			idx := 0
			for si, seed := range seeds {
				ref := make([]byte, 64)
				if _, err := io.ReadFull(prng.BuildSeededReader(seed), ref); err != nil {
					rep.Fail("C19.prng-error", err.Error(), fmt.Sprint("seed ", si))
					return
				}
				// equal seeds: equal sources
				s1, s2 := prng.BuildSeededRand(seed), prng.BuildSeededRand(seed)
				for i := 0; i < 8; i++ {
					a, b := s1.Uint64(), s2.Uint64()
					if a != b {
						rep.Fail("C19.prng-seed", "two sources built from equal seed data differ", fmt.Sprint("seed ", si))
					}
					for j := 0; j < 8; j++ {
						if byte(a>>(8*j)) != ref[8*i+j] {
							rep.Fail("C19.prng-reader", "the reader's stream is not the little-endian byte stream of the source", fmt.Sprint("seed ", si))
						}
					}
				}
				// seed split across several data arguments hashes like the concatenation
				if len(seed) > 1 {
					s3 := prng.BuildSeededRand(seed[:1], seed[1:])
					if s3.Uint64() != prng.BuildSeededRand(seed).Uint64() {
						rep.Fail("C19.prng-seed", "seed data split into two arguments gives a different stream", fmt.Sprint("seed ", si))
					}
					// empty parts contribute no seed data wherever they stand
					for _, parts := range [][][]byte{{seed[:1], nil, seed[1:]}, {nil, seed}, {seed[:1], {}, seed[1:], nil}} {
						if prng.BuildSeededRand(parts...).Uint64() != prng.BuildSeededRand(seed).Uint64() {
							rep.Fail("C19.prng-seed", "equal seed data with an empty part among the arguments gives a different stream", fmt.Sprint("seed ", si, " parts ", parts))
						}
					}
				}
				for mask := 0; mask < 1<<(total-1); mask++ {
					idx++
					if idx%nshards != shard {
						continue
					}
					rep.Cases++
					rd := prng.BuildSeededReader(seed)
					out := make([]byte, 0, total)
					start := 0
					var chunks []int
					for i := 1; i <= total; i++ {
						if i == total || mask&(1<<(i-1)) != 0 {
							chunks = append(chunks, i-start)
							buf := make([]byte, i-start)
							n, err := rd.Read(buf)
							if n != len(buf) || err != nil {
								rep.Fail("C19.prng-short", fmt.Sprintf("Read(%d) returned (%d,%v)", len(buf), n, err), fmt.Sprint("seed ", si, " chunks ", chunks))
							}
							out = append(out, buf[:n]...)
							if i%3 == 0 {
								rd.Read(nil) // zero-length reads must not consume anything
							}
							start = i
						}
					}
					if !bytes.Equal(out, ref[:total]) {
						rep.Fail("C19.prng-chunking", fmt.Sprintf("chunked read differs from one big read: %x vs %x", out, ref[:total]), fmt.Sprint("seed ", si, " chunks ", chunks))
					}
					if len(chunks) > 1 {
						rep.Nontrivial++
					}
					if mask == 0b101001 && si == 1 {
						rep.Sample(fmt.Sprintf("seed %d chunks %v -> %x", si, chunks, out))
					}
				}
				for split := 0; split <= 40; split++ {
					idx++
					if idx%nshards != shard {
						continue
					}
					rep.Cases++
					rd := prng.BuildSeededReader(seed)
					a, b := make([]byte, split), make([]byte, 40-split)
					rd.Read(a)
					rd.Read(b)
					if !bytes.Equal(append(a, b...), ref[:40]) {
						rep.Fail("C19.prng-chunking", "two-chunk read of 40 bytes differs from one big read", fmt.Sprint("seed ", si, " split ", split))
					}
					rep.Nontrivial++
				}
				rep.Class(fmt.Sprint("seed", si))
			}
		},
	})
}

func init() {
	eng.Register(&eng.Scenario{
		Name: "strings-concurrent", Props: []string{"C19"}, MustFinish: true, ObsNames: stdObs,
		Doc:   "commonprefix.Prefix / TrimPrefix and padding.PadInPlace / UnpadInPlace called by three goroutines at once on unrelated arguments (pure functions: no shared state): each call returns what it returns sequentially",
		Quick: eng.Bounds{PB: 2}, Thorough: eng.Bounds{PB: 3},
		Body: func() {
			args := [][]string{{"flower", "flow", "flight"}, {"/usr/lib", "/usr/share", "/usr/local/x"}, {"abc", "abd", "ab"}}
			want := []string{"fl", "/usr/", "ab"}
			for i := range args {
				i := i
				T("G", func() {
					if p := commonprefix.Prefix(args[i]...); p != want[i] {
						fail("C19.prefix", "Prefix(%v) = %q while other goroutines compute prefixes of other arguments, want %q", args[i], p, want[i])
					}
					in := append([]string{}, args[i]...)
					commonprefix.TrimPrefix(in...)
					msg := []byte(args[i][0])
					padded := padding.PadInPlace(append([]byte{}, msg...))
					out, err := padding.UnpadInPlace(padded)
					if err != nil || string(out) != string(msg) {
						fail("C19.roundtrip", "Unpad(Pad(%q)) = (%q,%v) under concurrency", msg, out, err)
					}
				})
			}
			vsched.Settle()
		},
	})
	eng.Register(&eng.Scenario{
		Name: "prng-concurrent", Props: []string{"C19"}, MustFinish: true, ObsNames: stdObs,
		Doc:   "prng: three goroutines build sources / readers for different seed data at the same time (the functions share no documented state): each gets exactly the stream a sequential build of its seed gives",
		Quick: eng.Bounds{PB: 2}, Thorough: eng.Bounds{PB: 3},
		Body: func() {
			seeds := [][]byte{[]byte("seed-a"), []byte("seed-b"), nil}
			var want [3][2]uint64
			for i, sd := range seeds {
				src := prng.BuildSeededRand(sd)
				want[i] = [2]uint64{src.Uint64(), src.Uint64()}
			}
			for i := range seeds {
				i := i
				T("G", func() {
					src := prng.BuildSeededRand(seeds[i])
					a, b := src.Uint64(), src.Uint64()
					if a != want[i][0] || b != want[i][1] {
						fail("C19.prng-seed", "a source built for seed %d while other goroutines build sources for other seeds differs from the source a sequential build gives", i)
					}
					buf := make([]byte, 8)
					rd := prng.BuildSeededReader(seeds[i])
					if _, err := io.ReadFull(rd, buf); err != nil {
						fail("C19.prng-error", "%v", err)
					}
					var v uint64
					for j := 0; j < 8; j++ {
						v |= uint64(buf[j]) << (8 * j)
					}
					if v != want[i][0] {
						fail("C19.prng-seed", "a reader built for seed %d concurrently with other builds differs from the sequential stream", i)
					}
				})
			}
			vsched.Settle()
		},
	})
}
