package scn

import (
	"fmt"

	"github.com/aperturerobotics/util/cqueue"
	"github.com/aperturerobotics/util/zzverif/vsched"
	"verifharness/eng"
)

// lifo-history-iface: AtomicLIFO over an interface element type, one thread: every sequence of 6
// operations over {Push(fresh value), Push(nil interface), Push(0), Push(""), Pop}, then a drain; every
// Pop is compared with a plain slice used as a stack (a pushed zero / nil element is an element).
func init() {
	eng.Register(&eng.Scenario{
		Name: "lifo-history-iface", Props: []string{"C12"}, Det: true, NoRace: true, MustFinish: true, ObsNames: stdObs,
		Doc:   "AtomicLIFO[any]: one thread issues every sequence of 6 operations over {Push(fresh value), Push(nil), Push(0), Push(\"\"), Pop}, then drains; every Pop is compared with a slice used as a stack: zero and nil elements are elements like any other",
		Quick: eng.Bounds{PB: 0}, Thorough: eng.Bounds{PB: 0},
		Body: func() {
			var q cqueue.AtomicLIFO[any]
			var model []any
			var hist []string
			pop := func() bool {
				hist = append(hist, "Pop")
				var want any
				if n := len(model); n > 0 {
					want, model = model[n-1], model[:n-1]
				}
				if got := q.Pop(); got != want {
					fail("C12.lifo-linearizable", "%v: Pop returned %#v, a sequential stack returns %#v", hist, got, want)
					return false
				}
				return true
			}
			for step := 0; step < 6; step++ {
				l := vsched.Choose(5)
				vsched.Observe(oOp, int64(l), 0, 0)
				if l == 4 {
					if !pop() {
						return
					}
					continue
				}
				v := []any{100 + step, nil, 0, ""}[l]
				hist = append(hist, fmt.Sprintf("Push(%#v)", v))
				q.Push(v)
				model = append(model, v)
			}
			for len(model) > 0 {
				if !pop() {
					return
				}
			}
			pop() // empty: the zero value
		},
	})
}
