package scn

import (
	"context"

	"github.com/aperturerobotics/util/conc"
	"github.com/aperturerobotics/util/zzverif/vsched"
	"verifharness/eng"
)

const (
	c18Active  = iota
	c18Started // number of jobs started so far
	c18Cancel
	c18ErrSent      // the error channel of the WaitIdle caller fired (error sent or channel closed)
	c18Ran0    = 10 // +j: times job j ran
	c18Done0   = 20 // +j: job j finished
	c18Enq0    = 30 // +j: the Enqueue call containing job j has returned
	c18Ord0    = 40 // +j: start order index of job j (1-based)
	c18LastQ   = 60 // last counts reported to the WatchState callback
	c18LastR   = 61
)

func concBody(producers [][]int, limit int, withIdle, withWatch, slowJobs bool) func() {
	return concBodyInit(producers, limit, withIdle, withWatch, slowJobs, 0)
}

// concBodyInit: the first ninit jobs of producer 0 are passed to the constructor as initial elements.
func concBodyInit(producers [][]int, limit int, withIdle, withWatch, slowJobs bool, ninit int) func() {
	return concBodyOpt(producers, limit, withIdle, withWatch, slowJobs, ninit, false)
}

// concBodyOpt: concIdleErrCh = the WaitIdle caller may pass an error channel.
func concBodyOpt(producers [][]int, limit int, withIdle, withWatch, slowJobs bool, ninit int, concIdleErrCh bool) func() {
	return concBodyNil(producers, limit, withIdle, withWatch, slowJobs, ninit, concIdleErrCh, -1)
}

// concBodyNil: job number concNilJob (if >= 0) is a nil func.
func concBodyNil(producers [][]int, limit int, withIdle, withWatch, slowJobs bool, ninit int, concIdleErrCh bool, concNilJob int) func() {
	return func() {
		bg := context.Background()
		var q *conc.ConcurrentQueue
		njobs := 0
		for _, p := range producers {
			njobs += len(p)
		}
		mkJob := func(j int) func() {
			if j == concNilJob {
				// a nil job: there is nothing to run, the jobs behind it must still run
				vsched.CtrSet(c18Ran0+j, 1)
				vsched.CtrSet(c18Done0+j, 1)
				return nil
			}
			return func() {
				if vsched.CtrAdd(c18Ran0+j, 1) > 1 {
					fail("C18.ran-twice", "job %d ran twice", j)
				}
				a := vsched.CtrAdd(c18Active, 1)
				vsched.CtrSet(c18Ord0+j, vsched.CtrAdd(c18Started, 1))
				vsched.Observe(oEnter, int64(j), a, 0)
				if limit > 0 && a > int64(limit) {
					fail("C18.limit", "%d jobs executing at once with limit %d", a, limit)
				}
				if slowJobs {
					vsched.Point()
				}
				vsched.CtrAdd(c18Active, -1)
				vsched.CtrSet(c18Done0+j, 1)
				vsched.Observe(oExit, int64(j), 0, 0)
			}
		}
		checkCounts := func(where string, queued, running int) {
			vsched.Observe(oVal, int64(queued), int64(running), 0)
			if queued < 0 || running < 0 {
				fail("C18.counts", "%s reported queued=%d running=%d", where, queued, running)
			}
			if limit > 0 && (running > limit || (queued > 0 && running != limit)) {
				fail("C18.counts", "%s reported queued=%d running=%d with limit %d", where, queued, running, limit)
			}
			if limit <= 0 && queued != 0 {
				fail("C18.counts", "%s reported queued=%d on an unlimited queue", where, queued)
			}
		}
		{
			var initial []func()
			for _, j := range producers[0][:ninit] {
				initial = append(initial, mkJob(j))
				vsched.CtrSet(c18Enq0+j, 1)
			}
			q = conc.NewConcurrentQueue(limit, initial...)
		}
		for pi, jobs := range producers {
			pi, jobs := pi, jobs
			if pi == 0 {
				jobs = jobs[ninit:]
			}
			if len(jobs) == 0 {
				continue
			}
			// split the producer's jobs into consecutive Enqueue batches in every way
			var batches [][]int
			cur := []int{jobs[0]}
			for _, j := range jobs[1:] {
				if vsched.Choose(2) == 1 {
					batches = append(batches, cur)
					cur = nil
				}
				cur = append(cur, j)
			}
			batches = append(batches, cur)
			T("P", func() {
				_ = pi
				for _, b := range batches {
					fs := make([]func(), len(b))
					for i, j := range b {
						fs[i] = mkJob(j)
					}
					qd, rn := q.Enqueue(fs...)
					for _, j := range b {
						vsched.CtrSet(c18Enq0+j, 1)
					}
					checkCounts("Enqueue", qd, rn)
				}
			})
		}
		if withIdle {
			// the caller's optional error channel: nil, or one on which a nil error arrives (which is
			// not an error: WaitIdle keeps waiting)
			var errCh chan error
			errMode := 0 // 1: a nil error arrives, 2: a real error arrives, 3: the channel is closed
			if concIdleErrCh {
				errMode = vsched.Choose(4)
			}
			if errMode != 0 {
				errCh = make(chan error, 1)
				T("X", func() {
					switch errMode {
					case 1:
						errCh <- nil
					case 2:
						vsched.CtrSet(c18ErrSent, 1)
						errCh <- errStream
					case 3:
						vsched.CtrSet(c18ErrSent, 1)
						close(errCh)
					}
				})
			}
			if concIdleErrCh {
				// a status poller: Enqueue with no jobs only reports the counts
				T("Q", func() {
					for i := 0; i < 2; i++ {
						qd, rn := q.Enqueue()
						checkCounts("Enqueue()", qd, rn)
					}
				})
			}
			T("I", func() {
				var before []int
				for j := 0; j < njobs; j++ {
					if vsched.Ctr(c18Enq0+j) != 0 {
						before = append(before, j)
					}
				}
				label("WaitIdle")
				err := q.WaitIdle(bg, errCh)
				label("")
				if err != nil {
					// the error channel's error (or Canceled for a closed channel), and only if that source fired
					if !(vsched.Ctr(c18ErrSent) != 0 && (errMode == 2 && err == errStream || errMode == 3 && err == context.Canceled)) {
						fail("C18.waitidle-error", "WaitIdle returned %v (error channel mode %d)", err, errMode)
					}
					return
				}
				for _, j := range before {
					if vsched.Ctr(c18Done0+j) == 0 {
						fail("C18.waitidle-early", "WaitIdle returned nil although job %d, enqueued before it was called, has not finished", j)
					}
				}
			})
		}
		wctx, wcancel := context.WithCancel(bg)
		if withWatch {
			T("W", func() {
				label("WatchState")
				err := q.WatchState(wctx, nil, func(queued, running int) (bool, error) {
					checkCounts("WatchState", queued, running)
					vsched.CtrSet(c18LastQ, int64(queued))
					vsched.CtrSet(c18LastR, int64(running))
					return true, nil
				})
				label("")
				if err != context.Canceled || vsched.Ctr(c18Cancel) == 0 {
					fail("C18.watch-error", "WatchState returned %v", err)
				}
			})
		}
		vsched.Settle()
		for j := 0; j < njobs; j++ {
			if vsched.Ctr(c18Ran0+j) != 1 {
				fail("C18.ran-count", "job %d ran %d times at quiescence (limit %d)", j, vsched.Ctr(c18Ran0+j), limit)
			}
		}
		if vsched.CountParked("WaitIdle") > 0 {
			fail("C18.waitidle-stuck", "WaitIdle still parked although every job has finished")
		}
		if withWatch && vsched.CountParked("WatchState") > 0 && (vsched.Ctr(c18LastQ) != 0 || vsched.Ctr(c18LastR) != 0) {
			fail("C18.watch-stale", "every job has finished and the watcher is waiting for the next change, but the last state its callback was shown is queued=%d running=%d: a change was not reported", vsched.Ctr(c18LastQ), vsched.Ctr(c18LastR))
		}
		if limit == 1 {
			// FIFO: jobs of one producer start in enqueue order
			for _, pj := range producers {
				var jobs []int
				for _, j := range pj {
					if j != concNilJob {
						jobs = append(jobs, j)
					}
				}
				for i := 1; i < len(jobs); i++ {
					if vsched.Ctr(c18Ord0+jobs[i-1]) > vsched.Ctr(c18Ord0+jobs[i]) {
						fail("C18.fifo", "limit 1: job %d started before job %d although it was enqueued later", jobs[i], jobs[i-1])
					}
				}
			}
		}
		if qd, rn := q.Enqueue(); qd != 0 || rn != 0 {
			fail("C18.counts", "idle queue reports queued=%d running=%d", qd, rn)
		}
		vsched.CtrSet(c18Cancel, 1)
		wcancel()
	}
}

func init() {
	eng.Register(&eng.Scenario{
		Name: "conc-idle-cancel", Props: []string{"C18"}, MustFinish: true, ObsNames: stdObs,
		Doc:   "ConcurrentQueue (limit 1 or unlimited, choice) with one job running behind a gate and (choice) a second one queued: a WaitIdle caller whose context is cancelled while the job runs; the gate opens only once everything is quiet: WaitIdle returns context.Canceled - nil only if every job had finished when it returned",
		Quick: eng.Bounds{PB: 2}, Thorough: eng.Bounds{PB: 3},
		Body: func() {
			limit := vsched.Choose(2)
			two := vsched.Choose(2) == 1
			g, gF := &vsched.Gate{}, &vsched.Gate{}
			phases(gates(g), gates(gF))
			job := func(j int) func() {
				return func() {
					vsched.CtrAdd(c18Ran0+j, 1)
					g.Wait()
					vsched.CtrSet(c18Done0+j, 1)
				}
			}
			q := conc.NewConcurrentQueue(limit)
			q.Enqueue(job(0))
			if two {
				q.Enqueue(job(1))
			}
			ctx, cancel := context.WithCancel(context.Background())
			T("I", func() {
				label("WaitIdle")
				err := q.WaitIdle(ctx, nil)
				label("")
				done := vsched.Ctr(c18Done0) != 0 && (!two || vsched.Ctr(c18Done0+1) != 0)
				switch {
				case err == nil && !done:
					fail("C18.waitidle-early", "WaitIdle returned nil (its context was cancelled) although a job is still running")
				case err == context.Canceled && vsched.Ctr(c18Cancel) == 0:
					fail("C18.waitidle-error", "WaitIdle returned context.Canceled although its context is live")
				case err != nil && err != context.Canceled:
					fail("C18.waitidle-error", "WaitIdle returned %v", err)
				}
			})
			T("C", func() { vsched.CtrSet(c18Cancel, 1); cancel() })
			gF.Wait()
			if qd, rn := q.Enqueue(); qd != 0 || rn != 0 {
				fail("C18.counts", "idle queue reports queued=%d running=%d", qd, rn)
			}
		},
	})
	reg := func(name, doc string, q, t int, body func()) {
		eng.Register(&eng.Scenario{Name: name, Props: []string{"C18"}, MustFinish: true, ObsNames: stdObs, Doc: doc,
			Quick: eng.Bounds{PB: q}, Thorough: eng.Bounds{PB: t}, Body: body})
	}
	reg("conc-l1-idle", "ConcurrentQueue limit 1: one producer, 3 jobs in every batch split, a WaitIdle caller", 2, 3, concBody([][]int{{0, 1, 2}}, 1, true, false, true))
	reg("conc-l2-idle", "ConcurrentQueue limit 2: one producer, 3 jobs in every batch split, a WaitIdle caller", 2, 3, concBody([][]int{{0, 1, 2}}, 2, true, false, true))
	reg("conc-l1-idle-errch", "ConcurrentQueue limit 1: one producer, 2 slow jobs in every batch split, a WaitIdle caller whose error channel receives a nil error, receives an error, is closed, or is absent (choice), and a status poller calling Enqueue() with no jobs", 1, 2, concBodyOpt([][]int{{0, 1}}, 1, true, false, true, 0, true))
	reg("conc-l1-niljob", "ConcurrentQueue limit 1: one producer, slow jobs 0, 2, 3 and a nil job at position 1, every batch split, a WaitIdle caller: the jobs behind the nil job still run, in order, and the queue becomes idle", 2, 3, concBodyNil([][]int{{0, 1, 2, 3}}, 1, true, false, true, 0, false, 1))
	reg("conc-l2-init5", "ConcurrentQueue limit 2 constructed with 5 initial jobs (more than limit+1: the constructor has to put jobs back), a sixth job enqueued, a WaitIdle caller: per-producer start order, every job exactly once", 1, 2, concBodyInit([][]int{{0, 1, 2, 3, 4, 5}}, 2, true, false, true, 5))
	reg("conc-l1-init4", "ConcurrentQueue limit 1 constructed with 4 initial jobs: they start in the order given", 2, 3, concBodyInit([][]int{{0, 1, 2, 3}}, 1, true, false, false, 4))
	reg("conc-lneg-idle", "ConcurrentQueue with a negative limit (documented: unlimited): one producer, 3 jobs in every batch split, a WaitIdle caller", 1, 2, concBody([][]int{{0, 1, 2}}, -1, true, false, true))
	reg("conc-l2-init-nil", "ConcurrentQueue limit 2 constructed with 3 initial jobs of which the second is a nil func, a fourth job enqueued, a WaitIdle caller: the non-nil jobs run exactly once and the queue becomes idle with counts 0/0", 2, 3, concBodyNil([][]int{{0, 1, 2, 3}}, 2, true, false, true, 3, false, 1))
	reg("conc-l0-init-nil", "ConcurrentQueue unlimited constructed with 3 initial jobs of which the last is a nil func, a WaitIdle caller", 1, 2, concBodyNil([][]int{{0, 1, 2}}, 0, true, false, false, 3, false, 2))
	reg("conc-l0-idle", "ConcurrentQueue unlimited: one producer, 3 jobs in every batch split, a WaitIdle caller", 1, 2, concBody([][]int{{0, 1, 2}}, 0, true, false, true))
	reg("conc-l1-watch", "ConcurrentQueue limit 1: one producer, 3 instantaneous jobs in every batch split, a WatchState watcher", 2, 3, concBody([][]int{{0, 1, 2}}, 1, false, true, false))
	reg("conc-l2-watch", "ConcurrentQueue limit 2: one producer, 3 jobs, a WatchState watcher", 1, 2, concBody([][]int{{0, 1, 2}}, 2, false, true, true))
	reg("conc-l1-2p", "ConcurrentQueue limit 1: two producers (2 jobs in every split + 1 job), a WaitIdle caller", 1, 2, concBody([][]int{{0, 1}, {2}}, 1, true, false, false))
	reg("conc-l2-2p", "ConcurrentQueue limit 2: two producers (2 jobs + 2 jobs, every split)", 1, 2, concBody([][]int{{0, 1}, {2, 3}}, 2, false, false, true))
	reg("conc-l1-init", "ConcurrentQueue limit 1 constructed with 2 initial jobs, a third job enqueued, a WaitIdle caller", 2, 3, concBodyInit([][]int{{0, 1, 2}}, 1, true, false, false, 2))
	reg("conc-l0-init", "ConcurrentQueue unlimited constructed with 3 initial instantaneous jobs, a WaitIdle caller and a WatchState watcher", 1, 2, concBodyInit([][]int{{0, 1, 2}}, 0, true, true, false, 3))
	reg("conc-l2-init", "ConcurrentQueue limit 2 constructed with 3 initial jobs, a WaitIdle caller", 2, 3, concBodyInit([][]int{{0, 1, 2}}, 2, true, false, true, 3))
	reg("conc-l1-4jobs", "ConcurrentQueue limit 1: one producer, 4 instantaneous jobs in every batch split", 2, 3, concBody([][]int{{0, 1, 2, 3}}, 1, false, false, false))
}
