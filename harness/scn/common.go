// Package scn holds every scenario (closed client program + oracles). The whole package is
// passed through tools/vrewrite, so blocking operations written here (select, <-ch, go)
// park in the controlled scheduler.
//
// Rule: state shared between harness threads lives in vsched counters/cells/observations
// (//go:norace), never in plain variables, so that the -race build reports only the
// library's own races.
package scn

import (
	"context"
	"fmt"
	"os"

	"github.com/aperturerobotics/util/zzverif/vsched"
)

// T starts a named harness thread.
func T(name string, f func()) *vsched.Thread { return vsched.GoNamed(name, f) }

// curProp is the property being checked (set by the master for its workers). A scenario listed
// under several properties carries the oracles of all of them; an oracle of another property does
// not end the execution (it would hide the oracles of this property that come later), it is skipped.
var curProp = os.Getenv("VERIF_PROP")

func fail(oracle, format string, a ...any) {
	if vsched.Aborting() {
		return
	}
	if curProp == "C13" {
		return // the race build judges ThreadSanitizer reports only; keep exploring
	}
	if curProp != "" && len(oracle) > 4 && oracle[0] == 'C' && oracle[3] == '.' && oracle[:3] != curProp {
		return
	}
	vsched.Fail(oracle, fmt.Sprintf(format, a...))
}

func b2i(b bool) int64 {
	if b {
		return 1
	}
	return 0
}

func label(s string) { vsched.SetLabel(s) }

// generic observation kinds
const (
	oAcq = iota + 1
	oRel
	oErr
	oTryFail
	oRet
	oCall
	oVal
	oEnter
	oExit
	oCb
	oOp
)

var stdObs = map[int32]string{oAcq: "acquire", oRel: "release", oErr: "error", oTryFail: "try-failed", oRet: "return", oCall: "call", oVal: "value", oEnter: "enter", oExit: "exit", oCb: "callback", oOp: "op"}

// expCtx is a context that expires (deadline passed) instead of being cancelled: once expire()
// was called Done() is closed and Err() is context.DeadlineExceeded. No clock is involved.
type expCtx struct {
	context.Context
	done chan struct{}
}

func newExpCtx(parent context.Context) *expCtx {
	return &expCtx{Context: parent, done: make(chan struct{})}
}

func (c *expCtx) Done() <-chan struct{} { return c.done }

func (c *expCtx) Err() error {
	select {
	case <-c.done:
		return context.DeadlineExceeded
	default:
		return nil
	}
}

func (c *expCtx) expire() { close(c.done) }
