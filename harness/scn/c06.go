package scn

import (
	"io"

	"context"
	"fmt"
	"github.com/sirupsen/logrus"
	"sort"
	"strings"
	"time"

	"github.com/aperturerobotics/util/keyed"
	"github.com/aperturerobotics/util/zzverif/vsched"
	"verifharness/eng"
)

// ---- reference model of the key set ----

type kmKey struct {
	present bool
	pending bool // delayed removal armed
	data    int
}

type kModel struct {
	delay   bool
	ctxSet  bool
	script  int // iUntilCancelled / iReturnNil / iReturnErr
	keys    map[string]*kmKey
	timers  []string // keys with an armed removal, in arming order
	ctors   int
	refs    map[string][]int // KeyedRefCount: live reference ids per key
	relDone map[int]bool
}

func newKModel(delay, ctxSet bool, script int) *kModel {
	return &kModel{delay: delay, ctxSet: ctxSet, script: script, keys: map[string]*kmKey{}, refs: map[string][]int{}, relDone: map[int]bool{}}
}

// failed: the key's routine has exited with an error (then a removal is immediate).
func (m *kModel) failed(k string) bool { return m.ctxSet && m.script == iReturnErr }

func (m *kModel) setKey(k string) (data int, existed bool) {
	e := m.keys[k]
	if e == nil || !e.present {
		m.ctors++
		m.keys[k] = &kmKey{present: true, data: m.ctors}
		return m.ctors, false
	}
	m.cancelPending(k)
	return e.data, true
}

func (m *kModel) cancelPending(k string) {
	e := m.keys[k]
	if e != nil && e.pending {
		e.pending = false
		for i, t := range m.timers {
			if t == k {
				m.timers = append(m.timers[:i:i], m.timers[i+1:]...)
				break
			}
		}
	}
}

func (m *kModel) removeKey(k string) bool {
	e := m.keys[k]
	if e == nil || !e.present {
		return false
	}
	if e.pending {
		return true
	}
	if !m.delay || m.failed(k) {
		delete(m.keys, k)
		return true
	}
	e.pending = true
	m.timers = append(m.timers, k)
	return true
}

func (m *kModel) syncKeys(ks []string) (added, removed []string) {
	want := map[string]bool{}
	for _, k := range ks {
		if want[k] {
			continue
		}
		want[k] = true
		if _, existed := m.setKey(k); !existed {
			added = append(added, k)
		}
	}
	for _, k := range m.present() {
		if !want[k] {
			removed = append(removed, k)
			m.removeKey(k)
		}
	}
	return
}

func (m *kModel) fire() {
	if len(m.timers) == 0 {
		return
	}
	k := m.timers[0]
	m.timers = m.timers[1:]
	if e := m.keys[k]; e != nil && e.pending {
		delete(m.keys, k)
	}
}

func (m *kModel) present() []string {
	var out []string
	for k, e := range m.keys {
		if e.present {
			out = append(out, k)
		}
	}
	sort.Strings(out)
	return out
}

// ---- comparison ----

type keySetAPI interface {
	GetKeys() []string
	GetKey(string) (int, bool)
	GetKeysWithData() []keyed.KeyWithData[string, int]
}

func compareKeySet(api keySetAPI, m *kModel, hist *[]string) bool {
	got := sortedKeys(api.GetKeys())
	want := m.present()
	if strings.Join(got, ",") != strings.Join(want, ",") {
		fail("C06.keyset", "after %v: GetKeys=%v, reference model=%v", *hist, got, want)
		return false
	}
	for _, k := range []string{"a", "b"} {
		d, ok := api.GetKey(k)
		e := m.keys[k]
		if ok != (e != nil) || (ok && d != e.data) {
			fail("C06.getkey", "after %v: GetKey(%s)=(%d,%v), reference model=%+v", *hist, k, d, ok, e)
			return false
		}
	}
	wd := api.GetKeysWithData()
	if len(wd) != len(want) {
		fail("C06.keyset", "after %v: GetKeysWithData has %d entries, reference model %d", *hist, len(wd), len(want))
		return false
	}
	for _, kv := range wd {
		if e := m.keys[kv.Key]; e == nil || e.data != kv.Data {
			fail("C06.getkey", "after %v: GetKeysWithData reports (%s,%d), reference model=%+v", *hist, kv.Key, kv.Data, e)
			return false
		}
	}
	return true
}

func eqSet(a, b []string) bool {
	a, b = append([]string{}, a...), append([]string{}, b...)
	sort.Strings(a)
	sort.Strings(b)
	return strings.Join(a, ",") == strings.Join(b, ",")
}

func scriptRoutine(script int) keyed.Routine {
	return func(ctx context.Context) error {
		switch script {
		case iUntilCancelled:
			<-ctx.Done()
			return context.Canceled
		case iReturnErr:
			return errRoutine
		}
		return nil
	}
}

// keyedHistory enumerates every operation sequence of the given depth on Keyed.
func keyedHistory(depth int) func() { return keyedHistoryOpt(depth, false) }

// discardLogger is a logrus entry writing nowhere (the WithLogger constructors).
func discardLogger() *logrus.Entry {
	le := logrus.NewEntry(logrus.New())
	le.Logger.SetOutput(io.Discard)
	return le
}

// keyedHistoryOpt: with negDelay the release delay is always configured, as a negative duration
// (documented to mean its magnitude).
func keyedHistoryOpt(depth int, negDelay bool) func() {
	return func() {
		delay := negDelay || vsched.Choose(2) == 1
		delayArg := time.Second
		if negDelay {
			delayArg = -time.Second
		}
		ctxSet := vsched.Choose(2) == 1
		script := vsched.Choose(3)
		if negDelay && script == iReturnNil && vsched.Choose(2) == 1 {
			script = 3 // the constructor returns a nil Routine: a data-only key, never "failed"
		}
		m := newKModel(delay, ctxSet, script)
		opts := []keyed.Option[string, int]{nil} // (a nil option is skipped; the options after it still apply)
		if delay {
			opts = append(opts, keyed.WithReleaseDelay[string, int](delayArg))
		} else {
			// "no delay" spelled as an earlier delay overridden by a later zero one (options apply in order)
			opts = append(opts, keyed.WithReleaseDelay[string, int](time.Second), keyed.WithReleaseDelay[string, int](0))
		}
		ctors := 0
		ctor := func(key string) (keyed.Routine, int) {
			ctors++
			if script == 3 {
				return nil, ctors
			}
			return scriptRoutine(script), ctors
		}
		var k *keyed.Keyed[string, int]
		if negDelay && vsched.Choose(2) == 1 {
			k = keyed.NewKeyedWithLogger(ctor, discardLogger(), opts...) // the other constructor: same options
		} else {
			k = keyed.NewKeyed(ctor, opts...)
		}
		if ctxSet {
			k.SetContext(context.Background(), false)
		}
		hist := []string{fmt.Sprintf("config{delay=%v ctx=%v script=%d}", delay, ctxSet, script)}
		syncSets := [][]string{{}, {"a"}, {"b"}, {"a", "b"}, {"a", "a", "b"}, {"a", "a"}}
		for step := 0; step < depth; step++ {
			l := vsched.Choose(13)
			vsched.Observe(oOp, int64(l), 0, 0)
			switch {
			case l < 4: // SetKey(a|b, start f|t)
				key := []string{"a", "b"}[l%2]
				start := l >= 2
				hist = append(hist, fmt.Sprintf("SetKey(%s,%v)", key, start))
				d, ex := k.SetKey(key, start)
				wd, wex := m.setKey(key)
				if d != wd || ex != wex {
					fail("C06.setkey-result", "%v: SetKey returned (%d,%v), reference model (%d,%v)", hist, d, ex, wd, wex)
					return
				}
			case l < 6: // RemoveKey
				key := []string{"a", "b"}[l%2]
				hist = append(hist, fmt.Sprintf("RemoveKey(%s)", key))
				ex := k.RemoveKey(key)
				if wex := m.removeKey(key); ex != wex {
					fail("C06.removekey-result", "%v: RemoveKey returned %v, reference model %v", hist, ex, wex)
					return
				}
			case l < 12: // SyncKeys
				set := syncSets[l-6]
				restart := l == 10
				hist = append(hist, fmt.Sprintf("SyncKeys(%v,%v)", set, restart))
				add, rem := k.SyncKeys(append([]string{}, set...), restart)
				wadd, wrem := m.syncKeys(set)
				if strings.Join(add, ",") != strings.Join(wadd, ",") || !eqSet(rem, wrem) {
					fail("C06.synckeys-result", "%v: SyncKeys returned added=%v removed=%v, reference model added=%v removed=%v", hist, add, rem, wadd, wrem)
					return
				}
			default: // the earliest armed timer fires
				hist = append(hist, "FireTimer")
				if vsched.FireEarliest() {
					m.fire()
				}
			}
			vsched.Settle()
			if !compareKeySet(k, m, &hist) {
				return
			}
		}
		// drain: every armed delay expires
		hist = append(hist, "drain-timers")
		for i := 0; i < 8 && vsched.FireEarliest(); i++ {
			vsched.Settle()
		}
		for len(m.timers) > 0 {
			m.fire()
		}
		compareKeySet(k, m, &hist)
		k.ClearContext()
	}
}

// keyedRefHistory enumerates every operation sequence of the given depth on KeyedRefCount.
func keyedRefHistory(depth int) func() { return keyedRefHistoryOpt(depth, false) }

// keyedRefHistoryOpt: with logger the container is built by NewKeyedRefCountWithLogger and always has a release delay.
func keyedRefHistoryOpt(depth int, logger bool) func() {
	return func() {
		delay := logger || vsched.Choose(2) == 1
		ctxSet := vsched.Choose(2) == 1
		script := vsched.Choose(3)
		m := newKModel(delay, ctxSet, script)
		opts := []keyed.Option[string, int]{nil} // (a nil option is skipped; the options after it still apply)
		if delay {
			opts = append(opts, keyed.WithReleaseDelay[string, int](time.Second))
		}
		ctors := 0
		ctor := func(key string) (keyed.Routine, int) {
			ctors++
			return scriptRoutine(script), ctors
		}
		var k *keyed.KeyedRefCount[string, int]
		if logger {
			k = keyed.NewKeyedRefCountWithLogger(ctor, discardLogger(), opts...)
		} else {
			k = keyed.NewKeyedRefCount(ctor, opts...)
		}
		if ctxSet {
			k.SetContext(context.Background(), false)
		}
		hist := []string{fmt.Sprintf("config{delay=%v ctx=%v script=%d}", delay, ctxSet, script)}
		var refs []*keyed.KeyedRef[string, int]
		var refKey []string
		for step := 0; step < depth; step++ {
			l := vsched.Choose(8)
			vsched.Observe(oOp, int64(l), 0, 0)
			switch {
			case l < 2: // AddKeyRef(a|b)
				key := []string{"a", "b"}[l]
				hist = append(hist, fmt.Sprintf("AddKeyRef(%s)#%d", key, len(refs)))
				ref, d, ex := k.AddKeyRef(key)
				wd, wex := m.setKey(key)
				m.refs[key] = append(m.refs[key], len(refs))
				refs, refKey = append(refs, ref), append(refKey, key)
				if d != wd || ex != wex {
					fail("C06.addref-result", "%v: AddKeyRef returned (%d,%v), reference model (%d,%v)", hist, d, ex, wd, wex)
					return
				}
			case l < 5: // Release(ref i) for i = 0,1,2 (also a second time)
				i := l - 2
				hist = append(hist, fmt.Sprintf("Release(#%d)", i))
				if i < len(refs) {
					refs[i].Release()
					if !m.relDone[i] {
						m.relDone[i] = true
						key := refKey[i]
						lst := m.refs[key]
						for j, id := range lst {
							if id == i {
								lst = append(lst[:j:j], lst[j+1:]...)
								if len(lst) == 0 {
									delete(m.refs, key)
									m.removeKey(key)
								} else {
									m.refs[key] = lst
								}
								break
							}
						}
					}
				}
			case l < 7: // RemoveKey(a|b): drops every reference
				key := []string{"a", "b"}[l-5]
				hist = append(hist, fmt.Sprintf("RemoveKey(%s)", key))
				ex := k.RemoveKey(key)
				for _, id := range m.refs[key] {
					m.relDone[id] = true
				}
				delete(m.refs, key)
				if wex := m.removeKey(key); ex != wex {
					fail("C06.removekey-result", "%v: RemoveKey returned %v, reference model %v", hist, ex, wex)
					return
				}
			default:
				hist = append(hist, "FireTimer")
				if vsched.FireEarliest() {
					m.fire()
				}
			}
			vsched.Settle()
			if !compareKeySet(k, m, &hist) {
				return
			}
			// a key is present while at least one unreleased reference exists
			for key, lst := range m.refs {
				if len(lst) > 0 {
					if _, ok := k.GetKey(key); !ok {
						fail("C06.ref-held-key-missing", "%v: key %s has %d unreleased reference(s) but is not present", hist, key, len(lst))
						return
					}
				}
			}
		}
		hist = append(hist, "drain-timers")
		for i := 0; i < 8 && vsched.FireEarliest(); i++ {
			vsched.Settle()
		}
		for len(m.timers) > 0 {
			m.fire()
		}
		compareKeySet(k, m, &hist)
		k.ClearContext()
	}
}

func init() {
	ops := map[int32]string{oOp: "letter"}
	eng.Register(&eng.Scenario{
		Name: "keyed-history", Props: []string{"C06"}, QuickOnly: true, Det: true, Manual: true, NoRace: true, ObsNames: ops,
		Doc:   "Keyed: every sequence of 5 operations over {SetKey(a|b,start f|t), RemoveKey(a|b), SyncKeys({},{a},{b},{a,b},{a,a,b}+restart,{a,a}), FireEarliestTimer} x release delay {0,d} x context {unset,set} x routine script {blocks, returns nil, returns error}; after every operation GetKeys/GetKey/GetKeysWithData and the call's results are compared with a reference model; finally every armed delay expires",
		Quick: eng.Bounds{PB: 0, Cap: 8000000}, Thorough: eng.Bounds{PB: 0},
		Body: keyedHistory(5),
	})
	eng.Register(&eng.Scenario{
		Name: "keyed-history-negdelay", Props: []string{"C06"}, Det: true, Manual: true, NoRace: true, ObsNames: ops,
		Doc:   "Keyed: as keyed-history with sequences of 4 operations and the release delay configured as a negative duration (documented to mean its magnitude), built by NewKeyed or NewKeyedWithLogger (choice)",
		Quick: eng.Bounds{PB: 0}, Thorough: eng.Bounds{PB: 0},
		Body: keyedHistoryOpt(4, true),
	})
	eng.Register(&eng.Scenario{
		Name: "keyed-history-deep", Props: []string{"C06"}, ThoroughOnly: true, Det: true, Manual: true, NoRace: true, ObsNames: ops,
		Doc:   "Keyed: as keyed-history with sequences of 6 operations (thorough tier)",
		Quick: eng.Bounds{PB: 0}, Thorough: eng.Bounds{PB: 0, Cap: 200000000},
		Body: keyedHistory(6),
	})
	eng.Register(&eng.Scenario{
		Name: "keyedref-history", Props: []string{"C06"}, QuickOnly: true, Det: true, Manual: true, NoRace: true, ObsNames: ops,
		Doc:   "KeyedRefCount: every sequence of 6 operations over {AddKeyRef(a|b), Release(ref 0|1|2) (repeatable), RemoveKey(a|b), FireEarliestTimer} x delay x context x script, compared with a reference model (reference multiset + key set)",
		Quick: eng.Bounds{PB: 0, Cap: 8000000}, Thorough: eng.Bounds{PB: 0},
		Body: keyedRefHistory(6),
	})
	eng.Register(&eng.Scenario{
		Name: "keyedref-history-logger", Props: []string{"C06"}, Det: true, Manual: true, NoRace: true, ObsNames: ops,
		Doc:   "KeyedRefCount built by NewKeyedRefCountWithLogger with a release delay: every sequence of 4 operations, compared with the same reference model (the options apply whichever constructor is used)",
		Quick: eng.Bounds{PB: 0}, Thorough: eng.Bounds{PB: 0},
		Body: keyedRefHistoryOpt(4, true),
	})
	eng.Register(&eng.Scenario{
		Name: "keyedref-history-deep", Props: []string{"C06"}, ThoroughOnly: true, Det: true, Manual: true, NoRace: true, ObsNames: ops,
		Doc:   "KeyedRefCount: sequences of 7 operations (thorough tier)",
		Quick: eng.Bounds{PB: 0}, Thorough: eng.Bounds{PB: 0, Cap: 200000000},
		Body: keyedRefHistory(7),
	})
	bg := context.Background()
	eng.Register(&eng.Scenario{
		Name: "keyed-stale-timer", Props: []string{"C06"}, ObsNames: stdObs,
		Doc:   "Keyed with release delay, freely firing timers: SetKey(a); RemoveKey(a) [timer 1]; re-request a through SetKey or SyncKeys (choice) [cancels]; RemoveKey(a) [timer 2]; re-request again; the key may disappear only once timer 2 has fired (a stale callback of timer 1 must not remove it)",
		Quick: eng.Bounds{PB: 2}, Thorough: eng.Bounds{PB: 4},
		Body: func() {
			k := keyed.NewKeyed(func(key string) (keyed.Routine, int) { return scriptRoutine(iUntilCancelled), 1 },
				keyed.WithReleaseDelay[string, int](time.Second))
			k.SetContext(bg, false)
			how := vsched.Choose(2) // how the key is requested again: 0 SetKey, 1 SyncKeys
			rerequest := func() (existed bool) {
				if how == 0 {
					_, existed = k.SetKey("a", false)
					return existed
				}
				added, _ := k.SyncKeys([]string{"a"}, false)
				return len(added) == 0
			}
			k.SetKey("a", true)
			k.RemoveKey("a")
			if !rerequest() {
				// timer 1 already expired and removed the key: legitimate, nothing more to check
				k.ClearContext()
				return
			}
			t1 := vsched.LastTimerSeq()
			k.RemoveKey("a")
			t2 := vsched.LastTimerSeq()
			check := func(when string) {
				if _, ok := k.GetKey("a"); !ok && (t2 == t1 || !vsched.TimerFired(t2)) {
					fail("C06.removed-before-delay", "%s: key a is gone although the delay armed by the latest RemoveKey has not expired", when)
				}
			}
			check("after the second RemoveKey")
			vsched.Point()
			check("later")
			if !rerequest() { // requested again: must now stay for good
				if _, ok := k.GetKey("a"); !ok {
					fail("C06.removed-after-rerequest", "key a is missing right after it was requested again")
				}
			}
			vsched.Settle()
			if _, ok := k.GetKey("a"); !ok {
				fail("C06.removed-after-rerequest", "key a was requested again before its delay expired but is gone at quiescence")
			}
			k.ClearContext()
		},
	})
}

// ---- concurrent users of the key-set API (C06 refcount clause under schedules; C13 coverage) ----

func init() {
	bg := context.Background()
	eng.Register(&eng.Scenario{
		Name: "keyedref-concurrent", Props: []string{"C06"}, MustFinish: true, ObsNames: stdObs,
		Doc:   "KeyedRefCount, two threads each AddKeyRef(a); check; Release (one of them twice) plus a third thread AddKeyRef(b)/RemoveKey(b): while a thread holds an unreleased reference its key is present; at the end no key remains",
		Quick: eng.Bounds{PB: 2, Delay: true}, Thorough: eng.Bounds{PB: 3, Delay: true},
		Body: func() {
			delay := vsched.Choose(2) == 1
			var opts []keyed.Option[string, int]
			if delay {
				opts = append(opts, keyed.WithReleaseDelay[string, int](time.Second))
			}
			k := keyed.NewKeyedRefCount(func(key string) (keyed.Routine, int) { return scriptRoutine(iUntilCancelled), 1 }, opts...)
			k.SetContext(bg, false)
			for i := 0; i < 2; i++ {
				i := i
				T("U", func() {
					ref, _, _ := k.AddKeyRef("a")
					vsched.Observe(oAcq, int64(i), 0, 0)
					if _, ok := k.GetKey("a"); !ok {
						fail("C06.ref-held-key-missing", "key a is not present although this thread holds an unreleased reference to it")
					}
					vsched.Point()
					if _, ok := k.GetKey("a"); !ok {
						fail("C06.ref-held-key-missing", "key a is not present although this thread holds an unreleased reference to it")
					}
					vsched.Observe(oRel, int64(i), 0, 0)
					ref.Release()
					if i == 0 {
						ref.Release()
					}
				})
			}
			T("B", func() {
				ref, _, _ := k.AddKeyRef("b")
				k.GetKeys()
				if !k.RemoveKey("b") {
					fail("C06.removekey-result", "RemoveKey(b) reported that b did not exist while a reference to it was held")
				}
				ref.Release()
			})
			vsched.Settle() // auto timers: pending delayed removals have fired by now
			if ks := k.GetKeys(); len(ks) != 0 {
				fail("C06.keyset", "keys %v remain although every reference was released and every delay expired", ks)
			}
			k.ClearContext()
		},
	})
	eng.Register(&eng.Scenario{
		Name: "keyedref-release-race", Props: []string{"C06"}, MustFinish: true, ObsNames: stdObs,
		Doc:   "KeyedRefCount: reference r1 to key a exists; T1 = r1.Release()  ||  T2 = RemoveKey(a); r2 = AddKeyRef(a); check; r2.Release(): while r2 is held key a must be present whatever the stale Release does; at the end no key remains",
		Quick: eng.Bounds{PB: 2}, Thorough: eng.Bounds{PB: 3, Cap: 6000000},
		Body: func() {
			k := keyed.NewKeyedRefCount(func(key string) (keyed.Routine, int) { return scriptRoutine(iUntilCancelled), 1 })
			k.SetContext(bg, false)
			r1, _, _ := k.AddKeyRef("a")
			extra := vsched.Choose(2) == 1
			var r0 *keyed.KeyedRef[string, int]
			if extra {
				r0, _, _ = k.AddKeyRef("a")
			}
			g := &vsched.Gate{}
			T("T1", func() { r1.Release() })
			T("T2", func() {
				k.RemoveKey("a")
				r2, _, _ := k.AddKeyRef("a")
				vsched.Observe(oAcq, 2, 0, 0)
				for i := 0; i < 2; i++ {
					if _, ok := k.GetKey("a"); !ok {
						fail("C06.ref-held-key-missing", "key a is not present although an unreleased reference obtained after RemoveKey is held")
					}
					vsched.Point()
				}
				g.Wait() // main lets the stale Release finish first, whatever it does
				vsched.Observe(oRel, 2, 0, 0)
				r2.Release()
			})
			vsched.Settle()
			if _, ok := k.GetKey("a"); !ok {
				fail("C06.ref-held-key-missing", "key a disappeared while an unreleased reference to it is held")
			}
			g.Open()
			vsched.Settle()
			if extra {
				r0.Release() // released by RemoveKey already: must count as nothing
			}
			if ks := k.GetKeys(); len(ks) != 0 {
				fail("C06.keyset", "keys %v remain although every reference was released", ks)
			}
			k.ClearContext()
		},
	})
	eng.Register(&eng.Scenario{
		Name: "keyed-concurrent", Props: []string{"C06", "C07"}, MustFinish: true, ObsNames: stdObs,
		Doc:   "Keyed, two API threads: T1 = SetKey(a,true); RestartRoutine(a); RemoveKey(a)  ||  T2 = SetKey(b,true); GetKeysWithData; SyncKeys([b],true); a is removed by T1 or by T2's SyncKeys, b stays: final key set {b}; per-key overlap oracle",
		Quick: eng.Bounds{PB: 2}, Thorough: eng.Bounds{PB: 3},
		Body: func() {
			k := newKeyed(func(string, int) int { return iUntilCancelled }, false, false)
			k.SetContext(bg, false)
			T("T1", func() {
				k.SetKey("a", true)
				k.RestartRoutine("a")
				k.RemoveKey("a")
			})
			T("T2", func() {
				k.SetKey("b", true)
				k.GetKeysWithData()
				k.SyncKeys([]string{"b"}, true)
			})
			vsched.Settle()
			if ks := sortedKeys(k.GetKeys()); len(ks) != 1 || ks[0] != "b" {
				fail("C06.keyset", "final key set %v, want [b]", ks)
			}
			if vsched.Ctr(kActiveA) != 0 || vsched.Ctr(kActiveB) != 1 {
				fail("C07.not-cancelled", "at quiescence %d instance(s) of a and %d of b are executing, want 0 and 1", vsched.Ctr(kActiveA), vsched.Ctr(kActiveB))
			}
			k.ClearContext()
		},
	})
}
