package scn

import (
	"fmt"

	"github.com/aperturerobotics/util/prng"
	"verifharness/eng"
)

// ctrSource is a deterministic rand.Source (word i is a fixed function of i) that panics once, on its
// failAt-th call, before producing anything.
type ctrSource struct {
	i, calls, failAt int
}

func ctrWord(i int) uint64 { return uint64(i+1) * 0x9E3779B97F4A7C15 }

func (s *ctrSource) Uint64() uint64 {
	s.calls++
	if s.calls == s.failAt {
		panic("entropy source failed")
	}
	w := ctrWord(s.i)
	s.i++
	return w
}

func init() {
	eng.Register(&eng.Scenario{
		Name: "prng-source-faults", Props: []string{"C19"}, NoRace: true,
		Doc: "prng.SourceToReader over a caller-supplied source that panics once on its k-th call (every k <= 4; the caller of Read recovers): every sequence of 4 (5 thorough) reads of {1,3,8,11} bytes; every read that returns delivers, in order, the bytes of the words the source has produced - after the failed refill the stream continues with the next word the source hands out, no word is delivered twice",
		Direct: func(rep *eng.DirectReport, shard, nshards int, thorough bool) {
			lens := []int{1, 3, 8, 11}
			depth := 4
			if thorough {
				depth = 5
			}
			for failAt := 1; failAt <= 4; failAt++ {
				failAt := failAt
				enumSeq(depth, len(lens), shard, nshards, func(seq []int) {
					rep.Cases++
					src := &ctrSource{failAt: failAt}
					rd := prng.SourceToReader(src)
					hist := fmt.Sprintf("source panics on call %d: ", failAt)
					// reference: the byte stream of the words produced so far; pos = bytes delivered by completed reads
					var stream []byte
					pos := 0
					sync := func() {
						for len(stream) < 8*src.i {
							w := ctrWord(len(stream) / 8)
							for b := 0; b < 8; b++ {
								stream = append(stream, byte(w>>(8*b)))
							}
						}
					}
					panicked := false
					for _, li := range seq {
						n := lens[li]
						hist += fmt.Sprintf("Read(%d) ", n)
						buf := make([]byte, n)
						var got int
						var err error
						failed := func() (p bool) {
							defer func() {
								if recover() != nil {
									p = true
								}
							}()
							got, err = rd.Read(buf)
							return false
						}()
						sync()
						if failed {
							// the refill failed at a word boundary: everything produced so far counts as consumed
							// (the bytes copied before the failure are in the caller's buffer)
							panicked = true
							pos = len(stream)
							continue
						}
						if err != nil || got != n {
							rep.Fail("C19.prng-short", fmt.Sprintf("Read(%d) returned (%d,%v)", n, got, err), hist)
							return
						}
						if pos+n > len(stream) || string(buf) != string(stream[pos:pos+n]) {
							rep.Fail("C19.prng-chunking", fmt.Sprintf("Read(%d) delivered %x, the source's words give %x at stream position %d (after a failed refill: %v)", n, buf, stream[pos:min(pos+n, len(stream))], pos, panicked), hist)
							return
						}
						pos += n
					}
					if panicked {
						rep.Nontrivial++
					}
				})
			}
			rep.Class("sequences")
		},
	})
}
