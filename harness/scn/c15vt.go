package scn

import (
	"context"
	"fmt"

	"github.com/aperturerobotics/util/ccontainer"
	"github.com/aperturerobotics/util/zzverif/vsched"
	"verifharness/eng"
)

// vtMsg mimics a generated message whose EqualVT follows the protobuf convention that a nil message equals
// an empty one. NewCContainerVT documents VT equality with "nil is only equal to nil" on top (IsEqualVT).
type vtMsg struct{ n int }

func (m *vtMsg) EqualVT(o *vtMsg) bool {
	var a, b int
	if m != nil {
		a = m.n
	}
	if o != nil {
		b = o.n
	}
	return a == b
}

func init() {
	eng.Register(&eng.Scenario{
		Name: "cc-vt-history", Props: []string{"C15"}, Det: true, NoRace: true, MustFinish: true, ObsNames: stdObs,
		Doc:   "CContainer built with NewCContainerVT over a message type whose EqualVT treats nil and the empty message alike: every sequence of 4 SetValue / SwapValue calls over {nil, empty message, message 1, another message equal to it}; the cell holds the model's pointer (a write is dropped only if the new value is VT-equal to the old one and both are nil or both non-nil); WaitValue / WaitValueEmpty / WaitValueChange with an already-cancelled context return at once exactly when their condition holds",
		Quick: eng.Bounds{PB: 0}, Thorough: eng.Bounds{PB: 0},
		Body: func() {
			vals := []*vtMsg{nil, {}, {n: 1}, {n: 1}}
			names := []string{"nil", "empty", "m1", "m1'"}
			init := vsched.Choose(4)
			c := ccontainer.NewCContainerVT[*vtMsg](vals[init])
			model := vals[init]
			dead, cancel := context.WithCancel(context.Background())
			cancel()
			hist := []string{"NewCContainerVT(" + names[init] + ")"}
			for step := 0; step < 4; step++ {
				l := vsched.Choose(8)
				nv := vals[l%4]
				same := (model == nil) == (nv == nil) && model.EqualVT(nv)
				if l < 4 {
					hist = append(hist, "SetValue("+names[l]+")")
					c.SetValue(nv)
				} else {
					hist = append(hist, "SwapValue(->"+names[l%4]+")")
					got := c.SwapValue(func(old *vtMsg) *vtMsg {
						if old != model {
							fail("C15.atomic", "%v: SwapValue callback was given %p, the cell holds %p", hist, old, model)
						}
						return nv
					})
					if got != nv && !(same && got == model) {
						// (for an equal value the callback's result or the retained value are both "the updated value")
						fail("C15.atomic", "%v: SwapValue returned %p, want %p", hist, got, nv)
						return
					}
				}
				if !same {
					model = nv
				}
				if got := c.GetValue(); got != model {
					fail("C15.atomic", "%v: GetValue=%s, reference model %s", hist, vtName(got, vals, names), vtName(model, vals, names))
					return
				}
				v, err := c.WaitValue(dead, nil)
				if model != nil && (v != model || err != nil) || model == nil && (v != nil || err == nil) {
					fail("C15.condition", "%v: the cell holds %s; WaitValue (context already cancelled) returned (%s,%v)", hist, vtName(model, vals, names), vtName(v, vals, names), err)
					return
				}
				err = c.WaitValueEmpty(dead, nil)
				if (err == nil) != (model == nil) {
					fail("C15.condition", "%v: the cell holds %s; WaitValueEmpty (context already cancelled) returned %v", hist, vtName(model, vals, names), err)
					return
				}
				v, err = c.WaitValueChange(dead, nil, nil)
				if model != nil && (v != model || err != nil) || model == nil && err == nil {
					fail("C15.condition", "%v: the cell holds %s; WaitValueChange(old=nil) (context already cancelled) returned (%s,%v)", hist, vtName(model, vals, names), vtName(v, vals, names), err)
					return
				}
			}
		},
	})
}

func vtName(p *vtMsg, vals []*vtMsg, names []string) string {
	for i, v := range vals {
		if v == p {
			return names[i]
		}
	}
	return fmt.Sprintf("%p", p)
}

func init() {
	eng.Register(&eng.Scenario{
		Name: "cc-any-history", Props: []string{"C15"}, Det: true, NoRace: true, MustFinish: true, ObsNames: stdObs,
		Doc:   "CContainer[any] (interface-typed cell): every sequence of 4 SetValue calls over {nil, (*int)(nil), (*string)(nil), a non-nil *int, 0}: values are told apart by interface equality (a typed nil pointer is a value, different from nil and from a nil pointer of another type); GetValue returns what was stored last, WaitValue / WaitValueEmpty / WaitValueChange with an already-cancelled context return at once exactly when their condition holds",
		Quick: eng.Bounds{PB: 0}, Thorough: eng.Bounds{PB: 0},
		Body: func() {
			one := 1
			vals := []any{nil, (*int)(nil), (*string)(nil), &one, 0}
			names := []string{"nil", "(*int)(nil)", "(*string)(nil)", "&one", "0"}
			nm := func(v any) string {
				for i, x := range vals {
					if x == v {
						return names[i]
					}
				}
				return fmt.Sprintf("%#v", v)
			}
			c := ccontainer.NewCContainer[any](nil)
			var model any
			dead, cancel := context.WithCancel(context.Background())
			cancel()
			var hist []string
			for step := 0; step < 4; step++ {
				l := vsched.Choose(len(vals))
				hist = append(hist, "SetValue("+names[l]+")")
				c.SetValue(vals[l])
				model = vals[l]
				if got := c.GetValue(); got != model {
					fail("C15.atomic", "%v: GetValue=%s, want %s", hist, nm(got), nm(model))
					return
				}
				v, err := c.WaitValue(dead, nil)
				if model != nil && (v != model || err != nil) || model == nil && err == nil {
					fail("C15.condition", "%v: the cell holds %s; WaitValue (context already cancelled) returned (%s,%v)", hist, nm(model), nm(v), err)
					return
				}
				if err := c.WaitValueEmpty(dead, nil); (err == nil) != (model == nil) {
					fail("C15.condition", "%v: the cell holds %s; WaitValueEmpty (context already cancelled) returned %v", hist, nm(model), err)
					return
				}
				old := vals[(l+1)%len(vals)]
				v, err = c.WaitValueChange(dead, old, nil)
				if v != model || err != nil {
					fail("C15.condition", "%v: the cell holds %s; WaitValueChange(old=%s) (context already cancelled) returned (%s,%v)", hist, nm(model), nm(old), nm(v), err)
					return
				}
			}
		},
	})
}
