package scn

import (
	"context"
	"fmt"

	"github.com/aperturerobotics/util/promise"
	"github.com/aperturerobotics/util/zzverif/vsched"
	"verifharness/eng"
)

var errWrappedCanceled = fmt.Errorf("lookup failed: %w", context.Canceled)

// pcontainerHistory: every sequence of depth operations on a PromiseContainer against the obvious model
// (the current promise and its result). After every operation: every wait channel handed out by
// GetPromise before a replacement is closed (awaiters built on GetPromise follow replacements); if the
// current promise is resolved, all three container awaits with a live context return exactly its pair
// (the very error value that was set, also context.Canceled and errors wrapping it).
func pcontainerHistory(depth int) func() {
	return func() {
		bg := context.Background()
		errs := []error{nil, errRes, context.Canceled, context.DeadlineExceeded, errWrappedCanceled}
		var c *promise.PromiseContainer[int]
		if vsched.Choose(2) == 1 {
			c = promise.NewPromiseContainer[int]()
		} else {
			c = &promise.PromiseContainer[int]{} // the zero value is valid
		}
		var cur *promise.Promise[int] // model: current promise (nil: none)
		resolved := false
		var wantV int
		var wantE error
		type handed struct {
			ch  <-chan struct{}
			gen int
		}
		var chans []handed
		gen := 0
		var hist []string
		nextV := 0
		for step := 0; step < depth; step++ {
			l := vsched.Choose(7)
			vsched.Observe(oOp, int64(l), 0, 0)
			nextV++
			v := 10 + nextV
			switch l {
			case 0:
				hist = append(hist, "SetPromise(new unresolved)")
				cur, resolved = promise.NewPromise[int](), false
				c.SetPromise(cur)
				gen++
			case 1:
				hist = append(hist, "SetPromise(nil)")
				if cur != nil {
					gen++
				}
				cur, resolved = nil, false
				c.SetPromise(nil)
			case 2:
				e := errs[vsched.Choose(len(errs))]
				hist = append(hist, fmt.Sprintf("SetPromise(NewPromiseWithResult(%d,%v))", v, e))
				cur, resolved, wantV, wantE = promise.NewPromiseWithResult(v, e), true, v, e
				c.SetPromise(cur)
				gen++
			case 3:
				e := errs[vsched.Choose(len(errs))]
				hist = append(hist, fmt.Sprintf("container.SetResult(%d,%v)", v, e))
				if !c.SetResult(v, e) {
					fail("C11.winner-count", "%v: PromiseContainer.SetResult returned false", hist)
					return
				}
				p, _ := c.GetPromise()
				cur, _ = p.(*promise.Promise[int])
				resolved, wantV, wantE = true, v, e
				gen++
			case 4:
				if cur == nil {
					continue
				}
				e := errs[vsched.Choose(len(errs))]
				hist = append(hist, fmt.Sprintf("current.SetResult(%d,%v)", v, e))
				won := cur.SetResult(v, e)
				if won == resolved {
					fail("C11.winner-count", "%v: SetResult on the current promise returned %v, it was resolved before: %v", hist, won, resolved)
					return
				}
				if !resolved {
					resolved, wantV, wantE = true, v, e
				}
			case 5:
				hist = append(hist, "GetPromise")
				p, ch := c.GetPromise()
				if (p == nil) != (cur == nil) || (p != nil && p != promise.PromiseLike[int](cur)) {
					fail("C11.wrong-result", "%v: GetPromise does not return the promise installed last", hist)
					return
				}
				chans = append(chans, handed{ch, gen})
			case 6:
				hist = append(hist, "SetPromise(current)")
				if cur == nil {
					c.SetPromise(nil)
				} else {
					c.SetPromise(cur)
				}
			}
			vsched.Settle()
			for _, h := range chans {
				if h.gen < gen && !vsched.ChanClosed(h.ch) {
					fail("C11.replacement-not-signalled", "%v: the wait channel GetPromise handed out before the promise was replaced is still open", hist)
					return
				}
			}
			if cur != nil && resolved {
				for kind := aPlain; kind <= aCancelCh; kind++ {
					gv, ge := doAwait(c, kind, bg, nil, nil)
					if gv != wantV || ge != wantE {
						fail("C11.wrong-result", "%v: container %s returned (%d,%v), the current promise was resolved with (%d,%v)", hist, aLabels[kind], gv, ge, wantV, wantE)
						return
					}
				}
			}
		}
	}
}

func init() {
	eng.Register(&eng.Scenario{
		Name: "pcontainer-history", Props: []string{"C11"}, Det: true, NoRace: true, MustFinish: true, ObsNames: stdObs,
		Doc:   "PromiseContainer (constructed or zero value): every sequence of 4 operations over {SetPromise(new unresolved | nil | pre-resolved | the current one), container.SetResult, SetResult on the current promise, GetPromise} x results {nil, E, context.Canceled, DeadlineExceeded, an error wrapping context.Canceled}; after every operation every wait channel handed out before a replacement is closed, and with a resolved current promise all three awaits return exactly its value and the very error that was set",
		Quick: eng.Bounds{PB: 0}, Thorough: eng.Bounds{PB: 0},
		Body: pcontainerHistory(4),
	})
	eng.Register(&eng.Scenario{
		Name: "pcontainer-history-deep", Props: []string{"C11"}, ThoroughOnly: true, Det: true, NoRace: true, MustFinish: true, ObsNames: stdObs,
		Doc:   "as pcontainer-history with every sequence of 5 operations",
		Quick: eng.Bounds{PB: 0}, Thorough: eng.Bounds{PB: 0, Cap: 60000000},
		Body: pcontainerHistory(5),
	})
}
