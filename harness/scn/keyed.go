package scn

import (
	"context"
	"io"
	"sort"
	"time"

	ubackoff "github.com/aperturerobotics/util/backoff"
	"github.com/sirupsen/logrus"

	"github.com/aperturerobotics/util/keyed"
	"github.com/aperturerobotics/util/zzverif/vsched"
	cbackoff "github.com/cenkalti/backoff/v4"
	"verifharness/eng"
)

const (
	kEntered  = iota // instances entered so far (ctx in cell[id])
	kCtors           // constructor calls
	kActiveA  = 10   // instances of key a inside the function
	kActiveB  = 11
	kRunsA    = 12 // entries for key a
	kRunsB    = 13
	kRemovedA = 14 // key a was removed / context cleared: no entry may follow
	kNewA     = 16 // requests that reported key a as newly created
	kReAdded  = 15 // key a may have been removed and added again: instances of different incarnations may overlap (not covered by C07)
	kKey0     = 20 // +id: key index of instance id
	kLeft0    = 60
)

func keyIdx(k string) int {
	if k == "b" {
		return 1
	}
	return 0
}

// keyedInstance is the body of every keyed routine instance.
func keyedInstance(ctx context.Context, key string, outcome int) error {
	ki := keyIdx(key)
	removedAtEntry := vsched.Ctr(kRemovedA) != 0 // sampled at the very entry, before any scheduling point
	done := ctx.Done()                           // (a scheduling point) before the instance registers itself
	id := int(vsched.CtrAdd(kEntered, 1)) - 1
	if id >= 36 {
		fail("infra.too-many-instances", "more than 36 instances")
		return nil
	}
	vsched.SetCell(id, done)
	vsched.CtrSet(kKey0+id, int64(ki))
	vsched.CtrAdd(kRunsA+ki, 1)
	a := vsched.CtrAdd(kActiveA+ki, 1)
	vsched.Observe(oEnter, int64(id), int64(ki), int64(outcome))
	if a > 1 && !(ki == 0 && vsched.Ctr(kReAdded) != 0) {
		fail("C07.overlap", "a second instance of key %q entered its function while another one is still executing", key)
	}
	if ki == 0 && removedAtEntry {
		fail("C07.started-after-removal", "an instance of key %q entered its function after the key had been removed / the context cleared", key)
	}
	var err error
	switch outcome {
	case iUntilCancelled:
		<-ctx.Done()
		vsched.Point()
		vsched.Point()
		err = context.Canceled
	case iReturnErr:
		err = errRoutine
	case iReturnCanceled:
		err = context.Canceled
	}
	vsched.CtrAdd(kActiveA+ki, -1)
	vsched.CtrSet(kLeft0+id, 1)
	vsched.Observe(oExit, int64(id), int64(ki), 0)
	return err
}

// liveKeyed counts entered instances of key index ki whose context is live.
func liveKeyed(ki int) int {
	n := int(vsched.Ctr(kEntered))
	live := 0
	for id := 0; id < n; id++ {
		if int(vsched.Ctr(kKey0+id)) != ki {
			continue
		}
		if !vsched.ChanClosed(vsched.GetCell(id).(<-chan struct{})) {
			live++
		}
	}
	return live
}

type kbo struct {
	key   string
	plain int // (not safe for concurrent use, like any BackOff: see constBackoff)
}

func (b *kbo) NextBackOff() time.Duration {
	b.plain++
	vsched.Observe(oCb, 1, int64(keyIdx(b.key)), 0)
	return time.Second
}
func (b *kbo) Reset() { b.plain = 0; vsched.Observe(oCb, 0, int64(keyIdx(b.key)), 0) }

// newKeyed: outcome(key, run index) scripts every instance.
func newKeyed(outcome func(key string, run int) int, delay bool, retry bool) *keyed.Keyed[string, int] {
	opts := []keyed.Option[string, int]{nil} // (a nil option is skipped)
	if delay {
		opts = append(opts, keyed.WithReleaseDelay[string, int](time.Second))
	}
	if retry {
		opts = append(opts, keyed.WithBackoff[string, int](func(k string) cbackoff.BackOff { return &kbo{key: k} }))
	}
	// every Keyed under test has an exit callback (it runs after the lock is dropped)
	opts = append(opts, keyed.WithExitCb[string, int](func(key string, _ keyed.Routine, data int, err error) {
		vsched.Observe(oCb, 2, int64(keyIdx(key)), errCode(err)*100+int64(data))
	}))
	return keyed.NewKeyed(func(key string) (keyed.Routine, int) {
		n := int(vsched.CtrAdd(kCtors, 1))
		return func(ctx context.Context) error {
			run := int(vsched.Ctr(kRunsA+keyIdx(key))) + 1
			return keyedInstance(ctx, key, outcome(key, run))
		}, n
	}, opts...)
}

func sortedKeys(ks []string) []string { sort.Strings(ks); return ks }

func init() {
	bg := context.Background()
	always := func(o int) func(string, int) int { return func(string, int) int { return o } }

	// K1: overlap
	restartWordOpt := func(length int, withB, delay bool) func() {
		return func() {
			k := newKeyed(always(iUntilCancelled), delay, false)
			root, cancelRoot := context.WithCancel(context.WithValue(bg, ctxKey{}, 0))
			defer cancelRoot()
			k.SetContext(root, false)
			k.SetKey("a", true)
			if withB {
				k.SetKey("b", true)
			}
			if vsched.Choose(2) == 1 {
				vsched.Settle() // the first instances are inside their functions when the word starts
			}
			nletters := 6
			if length <= 2 && !withB {
				nletters = 10
			}
			for i := 0; i < length; i++ {
				l := vsched.Choose(nletters)
				if delay {
					l = []int{0, 1, 2, 5, 3, 10}[l]
				}
				switch l {
				case 10:
					k.RemoveKey("a") // (release delay configured: the key lingers, its instance is cancelled)
				case 8:
					cancelRoot() // the context given to SetContext is cancelled from outside
				case 9:
					k.SetKey("a", true)
				case 6:
					k.ResetAllRoutines()
				case 7:
					// condition functions: only a true condition resets
					k.ResetRoutine("a", func(string, int) bool { return false }, func(string, int) bool { return true })
				case 0:
					k.RestartRoutine("a")
				case 1:
					k.ResetRoutine("a")
				case 2:
					k.SetContext(context.WithValue(bg, ctxKey{}, i+1), true)
				case 3:
					k.RestartAllRoutines()
				case 4:
					k.ClearContext()
				case 5:
					k.SetContext(context.WithValue(bg, ctxKey{}, i+1), false)
				}
				if l := liveKeyed(0); l > 1 {
					fail("C07.two-live", "%d instances of key a with a live context after a controller call returned", l)
				}
			}
			vsched.Settle()
			k.ClearContext()
			vsched.CtrSet(kRemovedA, 1)
			if l := liveKeyed(0) + liveKeyed(1); l != 0 {
				fail("C07.not-cancelled", "%d instance(s) still have a live context after ClearContext returned", l)
			}
			vsched.Settle()
			if vsched.Ctr(kActiveA)+vsched.Ctr(kActiveB) != 0 {
				fail("C07.not-cancelled", "instances still executing at quiescence after ClearContext")
			}
		}
	}
	restartWord := func(length int, withB bool) func() { return restartWordOpt(length, withB, false) }
	eng.Register(&eng.Scenario{
		Name: "keyed-restart-delay", Props: []string{"C07"}, ObsNames: stdObs,
		Doc:   "Keyed with a release delay: SetContext; SetKey(a); then every word of length 3 over {RestartRoutine(a), ResetRoutine(a), SetContext(fresh,true|false), RestartAllRoutines, RemoveKey(a)}; the removal timer fires freely; instances return two steps after cancellation; per-key overlap oracle",
		Quick: eng.Bounds{PB: 1, Delay: true}, Thorough: eng.Bounds{PB: 2, Delay: true, Cap: 60000000},
		Body: restartWordOpt(3, false, true),
	})
	eng.Register(&eng.Scenario{
		Name: "keyed-restart-word3", Props: []string{"C07"}, ObsNames: stdObs,
		Doc:   "Keyed: SetContext; SetKey(a); then every word of length 3 over {RestartRoutine(a), ResetRoutine(a), SetContext(fresh,true|false), RestartAllRoutines, ClearContext}; instances return two steps after cancellation; per-key overlap oracle",
		Quick: eng.Bounds{PB: 1, Delay: true}, Thorough: eng.Bounds{PB: 2, Delay: true, Cap: 60000000},
		Body: restartWord(3, false),
	})
	eng.Register(&eng.Scenario{
		Name: "keyed-restart-word2", Props: []string{"C07"}, ObsNames: stdObs,
		Doc:   "Keyed: as keyed-restart-word3 with words of length 2 over the alphabet extended by ResetAllRoutines, ResetRoutine(a, conds...), SetKey(a,true) and the cancellation of the current context from outside, and a deeper schedule bound",
		Quick: eng.Bounds{PB: 2, Delay: true}, Thorough: eng.Bounds{PB: 4, Delay: true},
		Body: restartWord(2, false),
	})
	eng.Register(&eng.Scenario{
		Name: "keyed-restart-2keys", Props: []string{"C07"}, ObsNames: stdObs,
		Doc:   "Keyed: as keyed-restart-word3 with keys a and b and words of length 2",
		Quick: eng.Bounds{PB: 2, Delay: true}, Thorough: eng.Bounds{PB: 3, Delay: true},
		Body: restartWord(2, true),
	})
	eng.Register(&eng.Scenario{
		Name: "keyed-reset-nilroutine", Props: []string{"C07"}, ObsNames: stdObs,
		Doc:   "Keyed whose constructor returns a nil routine for its second construction: SetKey(a); ResetRoutine(a) (nil routine: nothing runs); then ResetRoutine(a) or RestartRoutine(a) or SetContext(fresh,true) (choice) - the third construction may not overlap the first instance, which is still returning",
		Quick: eng.Bounds{PB: 2}, Thorough: eng.Bounds{PB: 3},
		Body: func() {
			k := keyed.NewKeyed(func(key string) (keyed.Routine, int) {
				n := int(vsched.CtrAdd(kCtors, 1))
				if n == 2 {
					return nil, n
				}
				return func(ctx context.Context) error {
					return keyedInstance(ctx, key, iUntilCancelled)
				}, n
			})
			k.SetContext(bg, false)
			k.SetKey("a", true)
			if vsched.Choose(2) == 1 {
				vsched.Settle()
			}
			k.ResetRoutine("a")
			switch vsched.Choose(3) {
			case 0:
				k.ResetRoutine("a")
			case 1:
				k.RestartRoutine("a")
				k.ResetRoutine("a")
			case 2:
				k.SetContext(context.WithValue(bg, ctxKey{}, 1), true)
				k.ResetRoutine("a")
			}
			vsched.Settle()
			k.ClearContext()
			vsched.Settle()
		},
	})
	eng.Register(&eng.Scenario{
		Name: "keyed-cond-race", Props: []string{"C07"}, ObsNames: stdObs, MustFinish: true,
		Doc:   "Keyed with key a running: T1 = RestartRoutine(a, cond) / RestartAllRoutines(cond) / ResetRoutine(a, cond) / ResetAllRoutines(cond) (choice; the condition function takes a step and returns true)  ||  T2 = RemoveKey(a) / SyncKeys([]) / ClearContext (choice): once both returned and all is quiet, a key that is not in the set (or a cleared context) has no instance with a live context and nothing executing; key a never executes twice at once",
		Quick: eng.Bounds{PB: 2}, Thorough: eng.Bounds{PB: 3},
		Body: func() {
			k := newKeyed(always(iUntilCancelled), false, false)
			k.SetContext(bg, false)
			k.SetKey("a", true)
			if vsched.Choose(2) == 1 {
				vsched.Settle()
			}
			cond := func(string, int) bool { vsched.Point(); return true }
			h1, h2 := vsched.Choose(4), vsched.Choose(3)
			T("T1", func() {
				switch h1 {
				case 0:
					k.RestartRoutine("a", cond)
				case 1:
					k.RestartAllRoutines(cond)
				case 2:
					k.ResetRoutine("a", nil, cond)
				case 3:
					k.ResetAllRoutines(cond)
				}
			})
			T("T2", func() {
				switch h2 {
				case 0:
					k.RemoveKey("a")
				case 1:
					k.SyncKeys(nil, false)
				case 2:
					k.ClearContext()
				}
			})
			vsched.Settle()
			_, present := k.GetKey("a")
			if !present || h2 == 2 {
				if l := liveKeyed(0); l != 0 {
					fail("C07.not-cancelled", "key a was removed / the context cleared while a conditional restart was evaluating its condition: %d instance(s) of key a still have a live context at quiescence", l)
				}
				if a := vsched.Ctr(kActiveA); a != 0 {
					fail("C07.not-cancelled", "key a was removed / the context cleared but %d instance(s) are still executing at quiescence", a)
				}
			} else if present {
				fail("C07.not-removed", "key a is still in the set after RemoveKey / SyncKeys([]) returned (no release delay)")
			}
			k.ClearContext()
			vsched.CtrSet(kRemovedA, 1)
			vsched.Settle()
		},
	})
	eng.Register(&eng.Scenario{
		Name: "keyed-shared-options", Props: []string{"C06", "C07"}, ObsNames: stdObs, Manual: true,
		Doc:   "Two goroutines build containers at the same time from one shared option slice that has spare capacity (NewKeyed / NewKeyedWithLogger / NewKeyedRefCount / NewKeyedRefCountWithLogger, choice per goroutine): the constructors do not write into the caller's slice (its spare element stays as it was), every listed option took effect on both containers (release delay), the key sets are independent",
		Quick: eng.Bounds{PB: 2}, Thorough: eng.Bounds{PB: 3},
		Body: func() {
			ctor := func(key string) (keyed.Routine, int) { return nil, 1 }
			le := discardLogger()
			backing := make([]keyed.Option[string, int], 2, 4)
			backing[0] = keyed.WithReleaseDelay[string, int](time.Second)
			backing[1] = nil
			shared := backing[:1] // len 1, cap 4: an append would land in backing[1]
			h := [2]int{vsched.Choose(4), vsched.Choose(4)}
			for t := 0; t < 2; t++ {
				how := h[t]
				T("B", func() {
					var present func() bool
					switch how {
					case 0:
						k := keyed.NewKeyed(ctor, shared...)
						k.SetKey("a", false)
						k.RemoveKey("a")
						present = func() bool { _, ok := k.GetKey("a"); return ok }
					case 1:
						k := keyed.NewKeyedWithLogger(ctor, le, shared...)
						k.SetKey("a", false)
						k.RemoveKey("a")
						present = func() bool { _, ok := k.GetKey("a"); return ok }
					case 2:
						k := keyed.NewKeyedRefCount(ctor, shared...)
						r, _, _ := k.AddKeyRef("a")
						r.Release()
						present = func() bool { _, ok := k.GetKey("a"); return ok }
					case 3:
						k := keyed.NewKeyedRefCountWithLogger(ctor, le, shared...)
						r, _, _ := k.AddKeyRef("a")
						r.Release()
						present = func() bool { _, ok := k.GetKey("a"); return ok }
					}
					if !present() {
						fail("C06.keyset", "the container was built with WithReleaseDelay (shared option slice, constructor variant %d) but its key vanished at once on removal: the option did not take effect", how)
					}
				})
			}
			vsched.Settle()
			if backing[1] != nil {
				fail("caller-data-modified", "a constructor wrote into the spare capacity of the option slice it was given")
			}
		},
	})
	eng.Register(&eng.Scenario{
		Name: "keyed-dataonly-race", Props: []string{"C07", "C06"}, ObsNames: stdObs, MustFinish: true, RacePB: 2,
		Doc:   "Keyed / KeyedRefCount (choice) whose constructor returns a nil routine (data-only keys): T1 = ResetRoutine(a) or ResetAllRoutines (choice)  ||  T2 = GetKey(a); GetKeysWithData  ||  T3 = SetKey(a,true): readers see the data of the first or of the second construction, the key stays present, nothing ever runs",
		Quick: eng.Bounds{PB: 2}, Thorough: eng.Bounds{PB: 3},
		Body: func() {
			ctor := func(key string) (keyed.Routine, int) {
				return nil, int(vsched.CtrAdd(kCtors, 1))
			}
			var getKey func(string) (int, bool)
			var reset, resetAll func()
			var setKey func()
			var withData func() []keyed.KeyWithData[string, int]
			if vsched.Choose(2) == 0 {
				k := keyed.NewKeyed(ctor)
				k.SetContext(bg, false)
				k.SetKey("a", true)
				getKey, withData = k.GetKey, k.GetKeysWithData
				reset, resetAll = func() { k.ResetRoutine("a") }, func() { k.ResetAllRoutines() }
				setKey = func() { k.SetKey("a", true) }
			} else {
				k := keyed.NewKeyedRefCount(ctor)
				k.SetContext(bg, false)
				ref, _, _ := k.AddKeyRef("a")
				defer ref.Release()
				getKey, withData = k.GetKey, k.GetKeysWithData
				reset, resetAll = func() { k.ResetRoutine("a") }, func() { k.ResetAllRoutines() }
				setKey = func() { r, _, _ := k.AddKeyRef("a"); r.Release() }
			}
			all := vsched.Choose(2) == 1
			T("T1", func() {
				if all {
					resetAll()
				} else {
					reset()
				}
			})
			T("T2", func() {
				d, ok := getKey("a")
				if !ok || d < 1 || d > 2 {
					fail("C06.getkey", "GetKey(a) returned (%d,%v) while the key is being reset: want the data of construction 1 or 2", d, ok)
				}
				kd := withData()
				if len(kd) != 1 || kd[0].Key != "a" || kd[0].Data < 1 || kd[0].Data > 2 {
					fail("C06.getkey", "GetKeysWithData returned %v while key a is being reset", kd)
				}
			})
			T("T3", setKey)
			vsched.Settle()
			if d, ok := getKey("a"); !ok || d != 2 {
				fail("C06.getkey", "after ResetRoutine of the data-only key a: GetKey returned (%d,%v), want the second construction's data", d, ok)
			}
			if vsched.Ctr(kCtors) != 2 {
				fail("C06.getkey", "constructor called %d times, want 2 (SetKey / reset)", vsched.Ctr(kCtors))
			}
		},
	})
	eng.Register(&eng.Scenario{
		Name: "keyed-restart-pb", Props: []string{"C07"}, ObsNames: stdObs,
		Doc:   "Keyed: SetContext; SetKey(a); words of length 2 over the same alphabet, preemption-bounded (all free orders of the spawned goroutines)",
		Quick: eng.Bounds{PB: 1}, Thorough: eng.Bounds{PB: 2},
		Body: func() {
			k := newKeyed(always(iUntilCancelled), false, false)
			k.SetContext(context.WithValue(bg, ctxKey{}, 0), false)
			k.SetKey("a", true)
			for i := 0; i < 2; i++ {
				switch vsched.Choose(4) {
				case 0:
					k.RestartRoutine("a")
				case 1:
					k.ResetRoutine("a")
				case 2:
					k.SetContext(context.WithValue(bg, ctxKey{}, i+1), true)
				case 3:
					k.RestartAllRoutines()
				}
			}
			vsched.Settle()
			k.ClearContext()
			vsched.CtrSet(kRemovedA, 1)
			vsched.Settle()
		},
	})

	eng.Register(&eng.Scenario{
		Name: "keyed-setkey-race", Props: []string{"C07", "C06"}, ObsNames: stdObs, MustFinish: true,
		Doc:   "Keyed with a context: T1 = SetKey(a,true)  ||  T2 = SetKey(a,true) or SetKeyIfNotExists / SyncKeys([a]) (choice)  ||  T3 = RestartRoutine(a): key a is never executing twice; after RemoveKey(a) nothing of key a has a live context or starts again",
		Quick: eng.Bounds{PB: 2}, Thorough: eng.Bounds{PB: 3},
		Body: func() {
			k := newKeyed(always(iUntilCancelled), false, false)
			k.SetContext(bg, false)
			how := vsched.Choose(2)
			// (C06) exactly one of the two requests creates the key; both see the data of the one construction
			note := func(data int, isNew bool) {
				if isNew {
					vsched.CtrAdd(kNewA, 1)
				}
				if data != 0 && data != 1 {
					fail("C06.setkey-result", "a request for key a returned data %d: the key was constructed more than once", data)
				}
			}
			T("T1", func() { d, ex := k.SetKey("a", true); note(d, !ex) })
			T("T2", func() {
				if how == 0 {
					d, ex := k.SetKey("a", true)
					note(d, !ex)
				} else {
					added, _ := k.SyncKeys([]string{"a"}, true)
					note(0, len(added) == 1)
				}
			})
			T("T3", func() { k.RestartRoutine("a") })
			vsched.Settle()
			if n := vsched.Ctr(kNewA); n != 1 || vsched.Ctr(kCtors) != 1 {
				fail("C06.setkey-result", "two concurrent requests for the absent key a: %d of them reported it as newly created and the constructor ran %d time(s), want 1 and 1", n, vsched.Ctr(kCtors))
			}
			if d, ok := k.GetKey("a"); !ok || d != 1 {
				fail("C06.keyset", "GetKey(a) = (%d,%v) after two concurrent requests for it", d, ok)
			}
			if l := liveKeyed(0); l != 1 {
				fail("C07.two-live", "%d instances of key a with a live context at quiescence, want exactly 1", l)
			}
			k.RemoveKey("a")
			vsched.CtrSet(kRemovedA, 1)
			if l := liveKeyed(0); l != 0 {
				fail("C07.not-cancelled", "key a removed but %d instance(s) still have a live context when RemoveKey returns", l)
			}
			vsched.Settle()
			if vsched.Ctr(kActiveA) != 0 {
				fail("C07.not-cancelled", "an instance of key a is still executing at quiescence after RemoveKey")
			}
		},
	})

	eng.Register(&eng.Scenario{
		Name: "keyed-retry-perkey", Props: []string{"C07"}, ObsNames: stdObs,
		Doc:   "Keyed with WithRetry(exponential config: 100ms, x2, no jitter): every constructed routine fails on its first run; SetKey(a); SetKey(b); ResetRoutine(a) (sequential, settled between): each routine object backs off on its own - the first retry interval of every one is the initial interval, and every key is running again at quiescence",
		Quick: eng.Bounds{PB: 1}, Thorough: eng.Bounds{PB: 2},
		Body: func() {
			conf := &ubackoff.Backoff{BackoffKind: ubackoff.BackoffKind_BackoffKind_EXPONENTIAL, Exponential: &ubackoff.Exponential{InitialInterval: 100, Multiplier: 2, MaxInterval: 100000}}
			ctor := func(key string) (keyed.Routine, int) {
				n := int(vsched.CtrAdd(kCtors, 1))
				first := true
				return func(ctx context.Context) error {
					out := iUntilCancelled
					if first {
						first, out = false, iReturnErr
					}
					return keyedInstance(ctx, key, out)
				}, n
			}
			k := keyed.NewKeyed(ctor, keyed.WithRetry[string, int](conf))
			k.SetContext(bg, false)
			step := func(what string, ki int, act func()) bool {
				seq := vsched.LastTimerSeq()
				act()
				vsched.Settle() // auto timers: the retry has happened
				if vsched.LastTimerSeq() != seq+1 {
					fail("C07.retry-lost", "%s: the new routine failed once but %d retry timers were armed, want 1", what, vsched.LastTimerSeq()-seq)
					return false
				}
				if d := time.Duration(vsched.LastTimerDur()); d != 100*time.Millisecond {
					fail("C07.retry-lost", "%s: the first retry of a fresh routine object was armed with %v, want the initial interval 100ms (back-off state is per routine)", what, d)
					return false
				}
				if vsched.Ctr(kActiveA+ki) != 1 {
					fail("C07.retry-lost", "%s: %d instances of the key executing at quiescence, want 1", what, vsched.Ctr(kActiveA+ki))
					return false
				}
				return true
			}
			_ = step("SetKey(a)", 0, func() { k.SetKey("a", true) }) &&
				step("SetKey(b)", 1, func() { k.SetKey("b", true) }) &&
				step("ResetRoutine(a)", 0, func() { k.ResetRoutine("a") })
			k.ClearContext()
			vsched.CtrSet(kRemovedA, 1)
			vsched.Settle()
		},
	})
	eng.Register(&eng.Scenario{
		Name: "keyed-synckeys-shapes", Props: []string{"C07", "C06"}, ObsNames: stdObs,
		Doc:   "Keyed with keys a and b running: SyncKeys with every argument shape over {a,b} of length <= 3 (duplicates included): when it returns every key outside the list has no live context, removed lists exactly those keys, every listed key is running at quiescence",
		Quick: eng.Bounds{PB: 1}, Thorough: eng.Bounds{PB: 2},
		Body: func() {
			k := newKeyed(always(iUntilCancelled), false, false)
			k.SetContext(bg, false)
			k.SetKey("a", true)
			k.SetKey("b", true)
			vsched.Settle()
			alpha := []string{"a", "b"}
			var list []string
			for n := vsched.Choose(4); n > 0; n-- {
				list = append(list, alpha[vsched.Choose(2)])
			}
			want := map[string]bool{}
			for _, x := range list {
				want[x] = true
			}
			restart := vsched.Choose(2) == 1
			added, removed := k.SyncKeys(append([]string{}, list...), restart)
			for ki, key := range []string{"a", "b"} {
				if !want[key] {
					if l := liveKeyed(ki); l != 0 {
						fail("C07.not-cancelled", "SyncKeys(%v) returned: key %q is not requested any more but %d instance(s) still have a live context", list, key, l)
						return
					}
				}
			}
			var wantRem, wantAdd []string
			for _, key := range []string{"a", "b"} {
				if !want[key] {
					wantRem = append(wantRem, key)
				}
			}
			if !eqSet(removed, wantRem) || !eqSet(added, wantAdd) {
				fail("C06.synckeys-result", "SyncKeys(%v) on {a,b} returned added=%v removed=%v, want added=%v removed=%v", list, added, removed, wantAdd, wantRem)
				return
			}
			vsched.Settle()
			for ki, key := range []string{"a", "b"} {
				a := vsched.Ctr(kActiveA + ki)
				if want[key] && a != 1 || !want[key] && a != 0 {
					fail("C07.not-cancelled", "after SyncKeys(%v) and quiescence %d instance(s) of key %q are executing (requested=%v)", list, a, key, want[key])
					return
				}
			}
			var ks []string
			for x := range want {
				ks = append(ks, x)
			}
			if got := sortedKeys(k.GetKeys()); !eqSet(got, ks) {
				fail("C06.keyset", "after SyncKeys(%v): GetKeys=%v", list, got)
			}
			k.ClearContext()
			vsched.CtrSet(kRemovedA, 1)
			vsched.Settle()
		},
	})
	eng.Register(&eng.Scenario{
		Name: "keyed-withretry", Props: []string{"C07"}, ObsNames: stdObs,
		Doc:   "Keyed / KeyedRefCount built through the other option spellings (choice): WithRetry(constant back-off config), WithRetry(config) followed by WithRetry(nil) (retry disabled again), WithBackoff(zero-interval policy), the WithLogger constructors with WithExitLogger: key a fails on its first run; with retry configured it runs again by quiescence, without it nothing runs it again; RemoveKey / reference release cancels it and nothing starts afterwards",
		Quick: eng.Bounds{PB: 2}, Thorough: eng.Bounds{PB: 3},
		Body: func() {
			how := vsched.Choose(6)
			le := logrus.NewEntry(logrus.New())
			le.Logger.SetOutput(io.Discard)
			conf := &ubackoff.Backoff{BackoffKind: ubackoff.BackoffKind_BackoffKind_CONSTANT, Constant: &ubackoff.Constant{Interval: 1000}}
			ctor := func(key string) (keyed.Routine, int) {
				n := int(vsched.CtrAdd(kCtors, 1))
				return func(ctx context.Context) error {
					out := iUntilCancelled
					if vsched.Ctr(kRunsA) == 0 {
						out = iReturnErr
					}
					return keyedInstance(ctx, key, out)
				}, n
			}
			retry := how != 1
			var setKey func()
			var remove func()
			var present func() bool
			if how == 4 {
				conf = &ubackoff.Backoff{} // every field (also the kind) at its zero value: the default exponential back-off
			}
			switch how {
			case 0, 1, 4, 5:
				opts := []keyed.Option[string, int]{keyed.WithRetry[string, int](conf)}
				if how == 1 {
					opts = append(opts, keyed.WithRetry[string, int](nil))
				}
				if how == 5 {
					// a policy whose interval is zero: retry at once (still a retry, not "stop")
					opts = []keyed.Option[string, int]{keyed.WithBackoff[string, int](func(string) cbackoff.BackOff { return &cbackoff.ZeroBackOff{} })}
				}
				k := keyed.NewKeyed(ctor, opts...)
				k.SetContext(bg, false)
				setKey = func() { k.SetKey("a", true) }
				remove = func() { k.RemoveKey("a") }
				present = func() bool { _, ok := k.GetKey("a"); return ok }
			case 2:
				k := keyed.NewKeyedWithLogger(ctor, le, keyed.WithRetry[string, int](conf))
				k.SetContext(bg, false)
				setKey = func() { k.SetKey("a", true) }
				remove = func() { k.RemoveKey("a") }
				present = func() bool { _, ok := k.GetKey("a"); return ok }
			case 3:
				k := keyed.NewKeyedRefCountWithLogger(ctor, le, keyed.WithRetry[string, int](conf), keyed.WithExitLogger[string, int](le))
				k.SetContext(bg, false)
				var ref *keyed.KeyedRef[string, int]
				setKey = func() { ref, _, _ = k.AddKeyRef("a") }
				remove = func() { ref.Release() }
				present = func() bool { _, ok := k.GetKey("a"); return ok }
			}
			setKey()
			vsched.Settle() // auto timers: the retry (if any) has happened
			runs := vsched.Ctr(kRunsA)
			if retry && (runs < 2 || vsched.Ctr(kActiveA) != 1) {
				fail("C07.retry-lost", "key a failed once with retry configured (variant %d) but ran %d time(s) and %d instance(s) are executing at quiescence", how, runs, vsched.Ctr(kActiveA))
			}
			if !retry && runs != 1 {
				fail("C07.started-after-removal", "retry was disabled by WithRetry(nil) but key a ran %d times", runs)
			}
			if !present() {
				fail("C07.not-removed", "key a vanished although it was never removed")
			}
			remove()
			vsched.CtrSet(kRemovedA, 1)
			if l := liveKeyed(0); l != 0 {
				fail("C07.not-cancelled", "key a removed but %d instance(s) still have a live context when the call returns", l)
			}
			vsched.Settle()
			if vsched.Ctr(kActiveA) != 0 || present() {
				fail("C07.not-cancelled", "key a still present or executing at quiescence after its removal")
			}
		},
	})

	eng.Register(&eng.Scenario{
		Name: "keyed-extcancel", Props: []string{"C07"}, ObsNames: stdObs,
		Doc:   "Keyed whose context is cancelled by its owner from outside (not through SetContext/ClearContext) while key a is running and slow to return; then every word of length 2 over {SetKey(a,true), SetKey(a,false), SetContext(fresh,true), RestartRoutine(a), ResetRoutine(a), SyncKeys([a],true)}: no replacement enters before the cancelled instance has returned",
		Quick: eng.Bounds{PB: 2, Delay: true}, Thorough: eng.Bounds{PB: 3, Delay: true},
		Body: func() {
			k := newKeyed(always(iUntilCancelled), false, false)
			root, cancelRoot := context.WithCancel(context.WithValue(bg, ctxKey{}, 0))
			defer cancelRoot()
			k.SetContext(root, false)
			k.SetKey("a", true)
			vsched.Settle() // the first instance is inside its function
			cancelRoot()
			for i := 0; i < 2; i++ {
				switch vsched.Choose(6) {
				case 0:
					k.SetKey("a", true)
				case 1:
					k.SetKey("a", false)
				case 2:
					k.SetContext(context.WithValue(bg, ctxKey{}, i+1), true)
				case 3:
					k.RestartRoutine("a")
				case 4:
					k.ResetRoutine("a")
				case 5:
					k.SyncKeys([]string{"a"}, true)
				}
				if l := liveKeyed(0); l > 1 {
					fail("C07.two-live", "%d instances of key a with a live context after a controller call returned", l)
				}
			}
			vsched.Settle()
			k.ClearContext()
			vsched.CtrSet(kRemovedA, 1)
			if l := liveKeyed(0); l != 0 {
				fail("C07.not-cancelled", "%d instance(s) still have a live context after ClearContext returned", l)
			}
			vsched.Settle()
			if vsched.Ctr(kActiveA) != 0 {
				fail("C07.not-cancelled", "instances still executing at quiescence after ClearContext")
			}
		},
	})

	eng.Register(&eng.Scenario{
		Name: "keyed-ctx-race", Props: []string{"C07"}, ObsNames: stdObs, MustFinish: true,
		Doc:   "Keyed with key a running: T1 = SetContext(fresh,true)  ||  T2 = ClearContext  ||  T3 = RestartRoutine(a); ResetAllRoutines: key a never executes twice at once; after a final ClearContext nothing of it is live",
		Quick: eng.Bounds{PB: 2, Delay: true}, Thorough: eng.Bounds{PB: 3, Delay: true},
		Body: func() {
			k := newKeyed(always(iUntilCancelled), false, false)
			k.SetContext(bg, false)
			k.SetKey("a", true)
			T("T1", func() { k.SetContext(context.WithValue(bg, ctxKey{}, 1), true) })
			T("T2", func() { k.ClearContext() })
			T("T3", func() { k.RestartRoutine("a"); k.ResetAllRoutines() })
			vsched.Settle()
			if l := liveKeyed(0); l > 1 {
				fail("C07.two-live", "%d instances of key a with a live context at quiescence", l)
			}
			k.ClearContext()
			vsched.CtrSet(kRemovedA, 1)
			if l := liveKeyed(0); l != 0 {
				fail("C07.not-cancelled", "%d instance(s) still have a live context after ClearContext returned", l)
			}
			vsched.Settle()
			if vsched.Ctr(kActiveA) != 0 {
				fail("C07.not-cancelled", "instances still executing at quiescence after ClearContext")
			}
		},
	})

	// K2: removal
	eng.Register(&eng.Scenario{
		Name: "keyed-removal", Props: []string{"C07", "C06"}, ObsNames: stdObs,
		Doc:   "Keyed with/without release delay (choice) and retry back-off: key a running or failed (retry timer pending); optionally (with a delay) RemoveKey(a) followed by a re-request through SetKey / SyncKeys; then one of {RemoveKey(a), ClearContext, SyncKeys([])}; timers fire freely; afterwards (and after the removal timer ran) the instance is cancelled and nothing for key a starts again",
		Quick: eng.Bounds{PB: 2}, Thorough: eng.Bounds{PB: 3},
		Body: func() {
			delay := vsched.Choose(2) == 1
			failing := vsched.Choose(2) == 1
			out := always(iUntilCancelled)
			if failing {
				// fails twice (so a retry timer is pending at various moments), then runs
				out = func(key string, run int) int {
					if run <= 2 {
						return iReturnErr
					}
					return iUntilCancelled
				}
			}
			k := newKeyed(out, delay, true)
			k.SetContext(bg, false)
			k.SetKey("a", true)
			if vsched.Choose(2) == 1 {
				vsched.Settle() // the instance is running / has failed and armed its retry
			}
			how := vsched.Choose(3)
			// with a release delay: optionally the key is first removed, requested again inside the delay
			// (SetKey / SyncKeys: the pending removal is called off) and only then removed for good
			if readd := vsched.Choose(3); delay && how != 1 && readd != 0 {
				// (the delay may expire before the re-request: then the key comes back as a new
				// incarnation, whose overlap with the old one C07 does not cover)
				vsched.CtrSet(kReAdded, 1)
				k.RemoveKey("a")
				if readd == 1 {
					k.SetKey("a", false)
				} else {
					k.SyncKeys([]string{"a"}, false)
				}
			}
			switch how {
			case 0:
				k.RemoveKey("a")
			case 1:
				k.ClearContext()
			case 2:
				k.SyncKeys(nil, false)
			}
			immediate := how == 1 || !delay
			if immediate {
				vsched.CtrSet(kRemovedA, 1)
				if l := liveKeyed(0); l != 0 {
					fail("C07.not-cancelled", "key a removed / context cleared but %d instance(s) still have a live context when the call returns", l)
				}
			}
			vsched.Settle() // auto timers: the removal timer and any retry timer have run by now
			if how != 1 {
				if _, ok := k.GetKey("a"); ok {
					fail("C07.not-removed", "key a still present at quiescence after its removal (delay=%v failing=%v)", delay, failing)
					fail("C06.keyset", "key a was removed and never requested again, every timer has fired, but GetKey still reports it (delay=%v, routine failing with retry=%v)", delay, failing)
				}
			}
			if l := liveKeyed(0); l != 0 {
				fail("C07.not-cancelled", "at quiescence after the removal %d instance(s) of key a still have a live context", l)
			}
			vsched.CtrSet(kRemovedA, 1)
			runs := vsched.Ctr(kRunsA)
			vsched.Settle()
			if vsched.Ctr(kRunsA) != runs {
				fail("C07.started-after-removal", "key a was started again after its removal")
			}
		},
	})

	// K3: retry survives non-restarting calls
	eng.Register(&eng.Scenario{
		Name: "keyed-retry", Props: []string{"C07"}, ObsNames: stdObs, RacePB: 2,
		Doc:   "Keyed with retry back-off, with/without release delay (choice): key a fails on its first run; around the failure and the retry timer every word of length 2 over {SetKey(a,false), GetKey(a), SetKey(b,true), SyncKeys([a],false), GetKeys, RemoveKey(a)}; at quiescence, if key a is still in the set it must be running again",
		Quick: eng.Bounds{PB: 2}, Thorough: eng.Bounds{PB: 3},
		Body: func() {
			delay := vsched.Choose(2) == 1
			k := newKeyed(func(key string, run int) int {
				if key == "a" && run == 1 {
					return iReturnErr
				}
				return iUntilCancelled
			}, delay, true)
			k.SetContext(bg, false)
			k.SetKey("a", true)
			if vsched.Choose(2) == 1 {
				vsched.Settle()
			}
			for i := 0; i < 2; i++ {
				switch vsched.Choose(6) {
				case 0:
					k.SetKey("a", false)
				case 1:
					k.GetKey("a")
				case 2:
					k.SetKey("b", true)
				case 3:
					k.SyncKeys([]string{"a"}, false)
				case 4:
					k.GetKeys()
				case 5:
					vsched.CtrSet(kReAdded, 1)
					k.RemoveKey("a")
				}
			}
			vsched.Settle() // auto timers: retry and removal timers have run by now
			if _, present := k.GetKey("a"); present {
				if r := vsched.Ctr(kRunsA); r < 2 {
					fail("C07.retry-lost", "key a failed once and is still in the set with retry configured, but it ran only %d time(s) by quiescence", r)
				}
				if vsched.Ctr(kActiveA) != 1 {
					fail("C07.retry-lost", "key a is in the set but not running at quiescence")
				}
			} else if vsched.Ctr(kActiveA) != 0 {
				fail("C07.not-cancelled", "key a is not in the set but an instance of it is still executing at quiescence")
			}
			k.ClearContext()
		},
	})
	eng.Register(&eng.Scenario{
		Name: "keyed-retry-ctx", Props: []string{"C07"}, ObsNames: stdObs, RacePB: 2,
		Doc:   "Keyed with retry back-off: key a fails on its first run (returning an error, or context.Canceled although its context is live; choice); around the failure and the retry timer one or two calls of SetContext(fresh, restart=false) (which leaves a failed routine to its pending retry) mixed with SetKey(a,false); at quiescence key a must be running again, exactly once",
		Quick: eng.Bounds{PB: 2}, Thorough: eng.Bounds{PB: 3},
		Body: func() {
			firstErr := []int{iReturnErr, iReturnCanceled}[vsched.Choose(2)]
			k := newKeyed(func(key string, run int) int {
				if key == "a" && run == 1 {
					return firstErr
				}
				return iUntilCancelled
			}, false, true)
			k.SetContext(bg, false)
			k.SetKey("a", true)
			if vsched.Choose(2) == 1 {
				vsched.Settle()
			}
			for i := 0; i < 2; i++ {
				switch vsched.Choose(3) {
				case 0:
					k.SetContext(context.WithValue(bg, ctxKey{}, i+1), false)
				case 1:
					k.SetKey("a", false)
				case 2:
				}
			}
			vsched.Settle() // auto timers: the retry timer has run by now
			if r := vsched.Ctr(kRunsA); r < 2 {
				fail("C07.retry-lost", "key a failed once and is still in the set with retry configured, but it ran only %d time(s) by quiescence", r)
			}
			if vsched.Ctr(kActiveA) != 1 || liveKeyed(0) != 1 {
				fail("C07.retry-lost", "key a is in the set but %d instance(s) are executing and %d have a live context at quiescence", vsched.Ctr(kActiveA), liveKeyed(0))
			}
			k.ClearContext()
		},
	})
	eng.Register(&eng.Scenario{
		Name: "keyed-retry-overlap", Props: []string{"C07"}, ObsNames: stdObs, RacePB: 2,
		Doc:   "Keyed with retry back-off: key a fails on its first two runs; concurrently a controller issues {RestartRoutine(a), SetContext(fresh,true), ResetRoutine(a)} (choice) while retry timers fire freely; overlap oracle",
		Quick: eng.Bounds{PB: 2}, Thorough: eng.Bounds{PB: 3},
		Body: func() {
			k := newKeyed(func(key string, run int) int {
				if run <= 2 {
					return iReturnErr
				}
				return iUntilCancelled
			}, false, true)
			k.SetContext(bg, false)
			k.SetKey("a", true)
			switch vsched.Choose(3) {
			case 0:
				k.RestartRoutine("a")
			case 1:
				k.SetContext(context.WithValue(bg, ctxKey{}, 1), true)
			case 2:
				k.ResetRoutine("a")
			}
			vsched.Settle()
			if l := liveKeyed(0); l > 1 {
				fail("C07.two-live", "%d live instances of key a at quiescence", l)
			}
			k.ClearContext()
		},
	})
}
