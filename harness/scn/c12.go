package scn

import (
	"fmt"

	"github.com/anishathalye/porcupine"
	"github.com/aperturerobotics/util/cqueue"
	"github.com/aperturerobotics/util/linkedlist"
	"github.com/aperturerobotics/util/zzverif/vsched"
	"verifharness/eng"
)

// operation kinds
const (
	kPush = iota
	kPop
	kPushFront
	kPeek
	kPeekTail
	kIsEmpty
	kReset
)

var kNames = []string{"Push", "Pop", "PushFront", "Peek", "PeekTail", "IsEmpty", "Reset"}

type seqIn struct {
	kind int
	arg  int
}
type seqOut struct {
	val int
	ok  bool
}

// history extracts porcupine operations from the observation log: the call stamp is the
// index of the call observation (taken in the segment of the operation's first step), the
// return stamp the index of the return observation.
func history(r *vsched.Result) []porcupine.Operation {
	type pend struct {
		in   seqIn
		call int64
		t    int
	}
	open := map[int64]pend{}
	var ops []porcupine.Operation
	for i, o := range r.Obs {
		switch o.Kind {
		case oCall:
			open[o.A] = pend{seqIn{int(o.B), int(o.C)}, int64(i), int(o.T)}
		case oRet:
			p := open[o.A]
			delete(open, o.A)
			ops = append(ops, porcupine.Operation{ClientId: p.t, Input: p.in, Call: p.call, Output: seqOut{int(o.B), o.C != 0}, Return: int64(i)})
		}
	}
	return ops
}

func sliceEq(a, b interface{}) bool {
	x, y := a.([]int), b.([]int)
	if len(x) != len(y) {
		return false
	}
	for i := range x {
		if x[i] != y[i] {
			return false
		}
	}
	return true
}

var lifoModel = porcupine.Model{
	Init: func() interface{} { return []int{} },
	Step: func(state, input, output interface{}) (bool, interface{}) {
		st, in, out := state.([]int), input.(seqIn), output.(seqOut)
		switch in.kind {
		case kPush:
			return true, append(append([]int{}, st...), in.arg)
		case kPop:
			if len(st) == 0 {
				return out.val == 0, st
			}
			return out.val == st[len(st)-1], st[:len(st)-1]
		}
		return false, st
	},
	Equal: sliceEq,
}

// dequeModel: st[0] is the head (next to be popped), Push appends at the tail.
var dequeModel = porcupine.Model{
	Init: func() interface{} { return []int{} },
	Step: func(state, input, output interface{}) (bool, interface{}) {
		st, in, out := state.([]int), input.(seqIn), output.(seqOut)
		switch in.kind {
		case kPush:
			return true, append(append([]int{}, st...), in.arg)
		case kPushFront:
			return true, append([]int{in.arg}, st...)
		case kPop:
			if len(st) == 0 {
				return !out.ok && out.val == 0, st
			}
			return out.ok && out.val == st[0], st[1:]
		case kPeek:
			if len(st) == 0 {
				return !out.ok && out.val == 0, st
			}
			return out.ok && out.val == st[0], st
		case kPeekTail:
			if len(st) == 0 {
				return !out.ok && out.val == 0, st
			}
			return out.ok && out.val == st[len(st)-1], st
		case kIsEmpty:
			return out.ok == (len(st) == 0), st
		case kReset:
			return true, []int{}
		}
		return false, st
	},
	Equal: sliceEq,
}

func describeHistory(ops []porcupine.Operation) string {
	s := ""
	for _, o := range ops {
		in, out := o.Input.(seqIn), o.Output.(seqOut)
		s += fmt.Sprintf("[t%d %s(%d)->(%d,%v) @%d-%d] ", o.ClientId, kNames[in.kind], in.arg, out.val, out.ok, o.Call, o.Return)
	}
	return s
}

func linPost(model porcupine.Model, oracle string) func(r *vsched.Result) (string, string) {
	return func(r *vsched.Result) (string, string) {
		ops := history(r)
		if !porcupine.CheckOperations(model, ops) {
			return oracle, "history is not linearizable: " + describeHistory(ops)
		}
		// conservation: every pushed value is returned by exactly one Pop (the final drain empties the structure)
		pushed, popped := map[int]int{}, map[int]int{}
		reset := false
		for _, o := range ops {
			in, out := o.Input.(seqIn), o.Output.(seqOut)
			switch in.kind {
			case kPush, kPushFront:
				pushed[in.arg]++
			case kPop:
				if out.val != 0 {
					popped[out.val]++
				}
			case kReset:
				reset = true
			}
		}
		for v, n := range popped {
			if n > 1 || pushed[v] == 0 {
				return "C12.conservation", fmt.Sprintf("value %d popped %d times (pushed %d times): %s", v, n, pushed[v], describeHistory(ops))
			}
		}
		if !reset {
			for v := range pushed {
				if popped[v] != 1 {
					return "C12.conservation", fmt.Sprintf("value %d pushed but popped %d times: %s", v, popped[v], describeHistory(ops))
				}
			}
		}
		return "", ""
	}
}

func lifoOp(q *cqueue.AtomicLIFO[int], id int64, kind, val int) {
	switch kind {
	case kPush:
		vsched.Observe(oCall, id, kPush, int64(val))
		q.Push(val)
		vsched.Observe(oRet, id, 0, 0)
	case kPop:
		vsched.Observe(oCall, id, kPop, 0)
		v := q.Pop()
		vsched.Observe(oRet, id, int64(v), b2i(v != 0))
	}
}

func lifoBody(nthreads, nops int) func() {
	return func() {
		var q cqueue.AtomicLIFO[int]
		for t := 0; t < nthreads; t++ {
			t := t
			kinds := make([]int, nops)
			for j := range kinds {
				kinds[j] = vsched.Choose(2)
			}
			T("U", func() {
				for j, k := range kinds {
					lifoOp(&q, int64(t*10+j), k, t*10+j+1)
				}
			})
		}
		vsched.Settle()
		for i := 0; i < nthreads*nops+1; i++ {
			id := int64(100 + i)
			vsched.Observe(oCall, id, kPop, 0)
			v := q.Pop()
			vsched.Observe(oRet, id, int64(v), b2i(v != 0))
			if v == 0 {
				break
			}
		}
	}
}

func listOp(l *linkedlist.LinkedList[int], id int64, kind, val int) {
	vsched.Observe(oCall, id, int64(kind), int64(val))
	var v int
	var ok bool
	switch kind {
	case kPush:
		l.Push(val)
	case kPushFront:
		l.PushFront(val)
	case kPop:
		v, ok = l.Pop()
	case kPeek:
		v, ok = l.Peek()
	case kPeekTail:
		v, ok = l.PeekTail()
	case kIsEmpty:
		ok = l.IsEmpty()
	case kReset:
		l.Reset()
	}
	vsched.Observe(oRet, id, int64(v), b2i(ok))
}

var listKinds = []int{kPush, kPushFront, kPop, kPeek, kPeekTail, kIsEmpty, kReset}

func listBody(shape []int, initial int) func() {
	return func() {
		var elems []int
		for i := 0; i < initial; i++ {
			elems = append(elems, 90+i)
		}
		l := linkedlist.NewLinkedList[int](elems...)
		for i := range elems { // model the initial contents as sequential pushes
			vsched.Observe(oCall, int64(200+i), kPush, int64(elems[i]))
			vsched.Observe(oRet, int64(200+i), 0, 0)
		}
		n := 0
		for t, nops := range shape {
			t := t
			kinds := make([]int, nops)
			for j := range kinds {
				kinds[j] = listKinds[vsched.Choose(len(listKinds))]
			}
			n += nops
			T("U", func() {
				for j, k := range kinds {
					listOp(l, int64(t*10+j), k, t*10+j+1)
				}
			})
		}
		vsched.Settle()
		for i := 0; i < n+initial+1; i++ {
			id := int64(100 + i)
			vsched.Observe(oCall, id, kPop, 0)
			v, ok := l.Pop()
			vsched.Observe(oRet, id, int64(v), b2i(ok))
			if !ok {
				break
			}
		}
	}
}

func init() {
	obs := map[int32]string{oCall: "call(id,kind,arg)", oRet: "ret(id,val,ok)"}
	eng.Register(&eng.Scenario{
		Name: "lifo-3x2", Props: []string{"C12"}, MustFinish: true, ObsNames: obs,
		Doc:   "AtomicLIFO: 3 threads x 2 operations, each chosen from {Push(fresh), Pop}; final sequential drain; porcupine linearizability against a sequential stack + conservation",
		Quick: eng.Bounds{PB: 2}, Thorough: eng.Bounds{PB: 4},
		Body: lifoBody(3, 2), Post: linPost(lifoModel, "C12.lifo-linearizable"),
	})
	eng.Register(&eng.Scenario{
		Name: "lifo-2x3", Props: []string{"C12"}, MustFinish: true, ObsNames: obs,
		Doc:   "AtomicLIFO: 2 threads x 3 operations from {Push, Pop}",
		Quick: eng.Bounds{PB: 3}, Thorough: eng.Bounds{PB: 6},
		Body: lifoBody(2, 3), Post: linPost(lifoModel, "C12.lifo-linearizable"),
	})
	eng.Register(&eng.Scenario{
		Name: "lifo-2x2-unbounded", Props: []string{"C12"}, MustFinish: true, ObsNames: obs,
		Doc:   "AtomicLIFO: 2 threads x 2 operations, ALL interleavings of the atomic loads/CASes (preemption bound larger than the number of points)",
		Quick: eng.Bounds{PB: 40, Cap: 60000000}, Thorough: eng.Bounds{PB: 40, Cap: 60000000},
		Body: lifoBody(2, 2), Post: linPost(lifoModel, "C12.lifo-linearizable"),
	})
	eng.Register(&eng.Scenario{
		Name: "list-2-2-1", Props: []string{"C12"}, MustFinish: true, ObsNames: obs,
		Doc:   "LinkedList: threads with 2,2,1 operations from {Push,PushFront,Pop,Peek,PeekTail,IsEmpty,Reset}, one initial element; porcupine against a sequential deque",
		Quick: eng.Bounds{PB: 1, Cap: 8000000}, Thorough: eng.Bounds{PB: 2},
		Body: listBody([]int{2, 2, 1}, 1), Post: linPost(dequeModel, "C12.list-linearizable"),
	})
	eng.Register(&eng.Scenario{
		Name: "list-history", Props: []string{"C12"}, MustFinish: true, ObsNames: obs, NoRace: true,
		Doc:   "LinkedList constructed with 0..3 initial elements (choice): one thread issues every sequence of 5 operations from {Push,PushFront,Pop,Peek,PeekTail,IsEmpty,Reset}, then the list is drained; compared with a sequential deque",
		Quick: eng.Bounds{PB: 0}, Thorough: eng.Bounds{PB: 0},
		Body: func() { listBody([]int{5}, vsched.Choose(4))() }, Post: linPost(dequeModel, "C12.list-linearizable"),
	})
	eng.Register(&eng.Scenario{
		Name: "list-2-2", Props: []string{"C12"}, MustFinish: true, ObsNames: obs,
		Doc:   "LinkedList: 2 threads x 2 operations, empty initial list, deeper preemption bound",
		Quick: eng.Bounds{PB: 3, Cap: 12000000}, Thorough: eng.Bounds{PB: 4},
		Body: listBody([]int{2, 2}, 0), Post: linPost(dequeModel, "C12.list-linearizable"),
	})
}
