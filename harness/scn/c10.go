package scn

import (
	"context"
	"errors"

	"github.com/aperturerobotics/util/ccontainer"
	"github.com/aperturerobotics/util/refcount"

	"github.com/aperturerobotics/util/zzverif/vsched"
	"verifharness/eng"
)

const (
	xRelCb        = 110 // released-callback invocations (ResolveWithReleased)
	xInvoc        = 111 // Access callback invocations so far
	xCallerCxl    = 112
	xPhase        = 113
	xHolding      = 114 // holder currently holds a value (value index) or 0
	xCxlBeforeRet = 115 // the caller's context was cancelled before a parked Access callback returned
	xInvVal0      = 120 // +k value index given to invocation k
	xInvStale0    = 130 // +k invocation k's value was invalidated before the callback returned
	xInvDone0     = 140 // +k invocation k returned
)

var accessErrs = []error{errors.New("cb-error-0"), errors.New("cb-error-1"), errors.New("cb-error-2"), errors.New("cb-error-3")}

// invalidated: value of resolver call i is definitely no longer valid: its release function
// ran, or a context change that began after the call started has completed. (At a quiescent
// state a released() invocation has completed too.)
func invalidated(i int, quiescent bool) bool {
	if vsched.Ctr(rcRel0+i) != 0 || vsched.Ctr(rcCtxDone) > vsched.Ctr(rcCtxBg0+i) {
		return true
	}
	return quiescent && vsched.Ctr(rcInv0+i) != 0
}

// heldValueOracle: a value obtained from Wait/Resolve is not released while the reference is
// held, unless it was invalidated.
func heldValueOracle(v int, when string) {
	i := v - 100
	if i < 1 || i > 8 || vsched.Ctr(rcRet0+i) != 1 {
		fail("C10.bogus-value", "%s: returned value %d which no resolver call returned", when, v)
		return
	}
	if vsched.Ctr(rcRel0+i) != 0 && vsched.Ctr(rcInv0+i) == 0 && vsched.Ctr(rcCtxChange) <= vsched.Ctr(rcCtxAt0+i) {
		fail("C10.released-while-held", "%s: value %d has been released although the returned reference is still held and nothing invalidated it", when, v)
	}
}

func init() {
	bg := context.Background()
	first := func(m int) func(int) int {
		return func(i int) int {
			if i == 1 {
				return m
			}
			return mValue
		}
	}
	eng.Register(&eng.Scenario{
		Name: "refcount-wait", Props: []string{"C10", "C08"}, MustFinish: true, ObsNames: stdObs,
		Doc:   "RefCount.Wait / Resolve holders (choice) against another reference user coming and going, an optional context change or the cancellation of the holder's own context, and a first value that may be invalidated by released(): the returned value is not released while the holder holds its reference unless invalidated; errors are returned as such",
		Quick: eng.Bounds{PB: 2, Delay: true}, Thorough: eng.Bounds{PB: 3, Delay: true},
		Body: func() {
			e := newRC2(bg, vsched.Choose(2) == 1, first([]int{mValue, mInvalidate, mError, mSlow}[vsched.Choose(4)]))
			useResolve := vsched.Choose(2) == 1
			ctxOp := vsched.Choose(3)
			hctx, hcancel := context.WithCancel(bg)
			defer hcancel()
			T("H", func() {
				var v int
				var rel func()
				var err error
				label("Wait")
				if useResolve {
					v, rel, err = e.rc.Resolve(hctx)
				} else {
					var ref interface{ Release() }
					var r2 = func() {}
					vv, rr, ee := e.rc.Wait(hctx)
					v, err = vv, ee
					if ee == nil {
						ref = rr
						r2 = ref.Release
					}
					rel = r2
				}
				label("")
				if err == context.Canceled && vsched.Ctr(xCallerCxl) != 0 {
					if v != 0 {
						fail("C10.value-with-error", "Wait/Resolve returned value %d with error %v", v, err)
					}
					return
				}
				if err != nil {
					if err != errResolve {
						fail("C10.wrong-error", "Wait/Resolve returned %v", err)
					}
					if v != 0 {
						fail("C10.value-with-error", "Wait/Resolve returned value %d with error %v", v, err)
					}
					return
				}
				vsched.CtrAdd(rcHeld, 1)
				heldValueOracle(v, "right after Wait/Resolve returned")
				vsched.Point()
				heldValueOracle(v, "while holding")
				vsched.CtrAdd(rcHeld, -1)
				rel()
			})
			T("U1", func() { e.user(1, false, false) })
			if ctxOp == 1 {
				T("X", func() { e.setContext(context.WithValue(bg, ctxKey{}, 2)) })
			}
			if ctxOp == 2 {
				// the holder's own context is cancelled at any moment (before, while or after it waits)
				T("HC", func() { vsched.CtrSet(xCallerCxl, 1); hcancel() })
			}
			vsched.Settle()
			e.finalRelease()
			e.setContext(nil)
			vsched.Settle()
			e.finalRelease()
		},
	})
	eng.Register(&eng.Scenario{
		Name: "refcount-late-release", Props: []string{"C10", "C08"}, MustFinish: true, ObsNames: stdObs,
		Doc:   "RefCount: consumer A obtains a value through ResolveWithReleased (or Resolve / Wait; choice); the value is invalidated (released()), which drops A's reference; consumer B then resolves the replacement and holds it; A now calls its release function (again, late): a repeated release is a no-op - B's value is not released while B holds it, and B's reference still counts",
		Quick: eng.Bounds{PB: 2}, Thorough: eng.Bounds{PB: 3},
		Body: func() {
			e := newRC2(bg, false, func(int) int { return mValue })
			how := vsched.Choose(3)
			var relA func()
			var vA int
			var err error
			switch how {
			case 0:
				vA, relA, err = e.rc.ResolveWithReleased(bg, func() { vsched.CtrAdd(xRelCb, 1) })
			case 1:
				vA, relA, err = e.rc.Resolve(bg)
			case 2:
				var ref *refcount.Ref[int]
				vA, ref, err = e.rc.Wait(bg)
				if ref != nil {
					relA = ref.Release
				}
			}
			if err != nil || vA != valOf(1) {
				fail("C10.wrong-error", "first consumer got (%d,%v)", vA, err)
				return
			}
			if how != 0 {
				relA() // (A releases by itself; with ResolveWithReleased the invalidation below does it)
			}
			if f, ok := vsched.GetCell(50).(func()); ok {
				vsched.CtrSet(rcInv0+1, 1)
				f()
			}
			vsched.Settle()
			vB, relB, err := e.rc.Resolve(bg)
			if err != nil {
				fail("C10.wrong-error", "second consumer got (%d,%v)", vB, err)
				return
			}
			vsched.CtrAdd(rcHeld, 1)
			heldValueOracle(vB, "right after Resolve returned")
			relA() // late, repeated
			vsched.Settle()
			heldValueOracle(vB, "after another consumer repeated its release")
			// B's reference still counts: a third consumer that comes and goes does not take the value away
			vC, relC, err := e.rc.Resolve(bg)
			if err != nil || vC != vB {
				fail("C10.stale-value", "third consumer got (%d,%v) while the second still holds %d", vC, err, vB)
			} else {
				relC()
			}
			vsched.Settle()
			heldValueOracle(vB, "after a third consumer came and went")
			vsched.CtrAdd(rcHeld, -1)
			relB()
			vsched.Settle()
			e.finalRelease()
			e.setContext(nil)
			vsched.Settle()
		},
	})
	eng.Register(&eng.Scenario{
		Name: "refcount-invalidate-then-release", Props: []string{"C10"}, MustFinish: true, ObsNames: stdObs,
		Doc:   "RefCount.ResolveWithReleased: the value is invalidated (released() has returned) while the caller still holds it, and the caller calls its release function right afterwards (every interleaving with the notification goroutine): the released callback fires exactly once all the same; without the invalidation it never fires",
		Quick: eng.Bounds{PB: 2}, Thorough: eng.Bounds{PB: 4},
		Body: func() {
			e := newRC2(bg, vsched.Choose(2) == 1, func(int) int { return mValue })
			inval := vsched.Choose(2) == 1
			v, rel, err := e.rc.ResolveWithReleased(bg, func() { vsched.CtrAdd(xRelCb, 1) })
			if err != nil || v != valOf(1) {
				fail("C10.wrong-error", "ResolveWithReleased returned (%d,%v)", v, err)
				return
			}
			if inval {
				if f, ok := vsched.GetCell(50).(func()); ok {
					vsched.CtrSet(rcInv0+1, 1)
					f()
				}
			}
			// released() may hand the invalidation to another goroutine when the container is busy: it has
			// definitely taken effect while the value was still held if the value's release function has run
			took := vsched.Ctr(rcRel0+1) != 0
			rel()
			vsched.Settle()
			n := vsched.Ctr(xRelCb)
			switch {
			case !inval && n != 0:
				fail("C10.released-cb-count", "the value was never invalidated but the released callback fired %d time(s)", n)
			case took && n != 1:
				fail("C10.released-cb-count", "the value was invalidated (and released) while the caller still held it; the caller released right afterwards: the released callback fired %d time(s), want 1", n)
			case n > 1:
				fail("C10.released-cb-count", "the released callback fired %d times", n)
			}
			e.setContext(nil)
			vsched.Settle()
			e.finalRelease()
		},
	})
	eng.Register(&eng.Scenario{
		Name: "refcount-failed-then-retry", Props: []string{"C10", "C09"}, MustFinish: true, ObsNames: stdObs,
		Doc:   "RefCount (keep-unreferenced f/t) whose first resolver call fails and whose second succeeds: consumer A (Wait / Resolve / Access, choice) gets the resolver's error and leaves; consumer B then gets a value resolved by a new call - a failed result is not kept for later consumers, whatever keep-unreferenced says",
		Quick: eng.Bounds{PB: 2}, Thorough: eng.Bounds{PB: 3},
		Body: func() {
			e := newRC2(bg, vsched.Choose(2) == 1, first(mError))
			how := vsched.Choose(3)
			consume := func() (int, error) {
				switch how {
				case 0:
					v, ref, err := e.rc.Wait(bg)
					if ref != nil {
						ref.Release()
					}
					return v, err
				case 1:
					v, rel, err := e.rc.Resolve(bg)
					if rel != nil {
						rel()
					}
					return v, err
				}
				got := 0
				err := e.rc.Access(bg, func(_ context.Context, v int) error { got = v; return nil })
				return got, err
			}
			if v, err := consume(); err != errResolve || v != 0 {
				fail("C10.wrong-error", "first consumer: the resolver failed, got (%d,%v)", v, err)
				return
			}
			vsched.Settle()
			if v, err := consume(); err != nil || v != valOf(2) {
				fail("C10.stale-value", "second consumer (after the first one got the resolver's error and left): got (%d,%v), want the value of a new resolver call (%d); resolver calls so far: %d", v, err, valOf(2), vsched.Ctr(rcCalls))
			}
			e.setContext(nil)
			vsched.Settle()
			e.finalRelease()
		},
	})
	eng.Register(&eng.Scenario{
		Name: "refcount-canceled-error", Props: []string{"C10"}, MustFinish: true, ObsNames: stdObs,
		Doc:   "RefCount whose resolver fails with the error context.Canceled itself (its own context is live): Wait / Resolve / ResolveWithReleased / Access / WaitRefCountContainer (choice) with a live caller context return that error as such and promptly (no spinning, no parking), before or after the result is stored (choice)",
		Quick: eng.Bounds{PB: 2}, Thorough: eng.Bounds{PB: 3},
		Body: func() {
			e := newRC2(bg, vsched.Choose(2) == 1, func(int) int { return mErrCanceled })
			how := vsched.Choose(4)
			keepRef := e.rc.AddRef(nil)
			if vsched.Choose(2) == 1 {
				vsched.Settle() // the failed result is already stored when the consumer arrives
			}
			T("H", func() {
				var v int
				var err error
				var rel func()
				switch how {
				case 0:
					var ref *refcount.Ref[int]
					v, ref, err = e.rc.Wait(bg)
					if ref != nil {
						rel = ref.Release
					}
				case 1:
					v, rel, err = e.rc.Resolve(bg)
				case 2:
					v, rel, err = e.rc.ResolveWithReleased(bg, func() {})
				case 3:
					err = e.rc.Access(bg, func(context.Context, int) error {
						fail("C10.bogus-value", "the Access callback was invoked although the resolver only ever fails")
						return nil
					})
				}
				vsched.CtrSet(xCallerCxl, 1) // (re-used as "the consumer returned")
				if err != context.Canceled {
					fail("C10.wrong-error", "the resolver failed with context.Canceled (caller context live): the consumer returned (%d, %v), want that error as such", v, err)
				}
				if err != nil && (v != 0 || rel != nil) {
					fail("C10.value-with-error", "the consumer returned value %d / a release function together with error %v", v, err)
				}
			})
			vsched.Settle()
			if vsched.Ctr(xCallerCxl) == 0 {
				fail("C10.wrong-error", "the resolver failed with context.Canceled and the caller's context is live: the consumer has not returned by quiescence")
			}
			keepRef.Release()
			e.setContext(nil)
			vsched.Settle()
		},
	})
	eng.Register(&eng.Scenario{
		Name: "refcount-released-cb", Props: []string{"C10"}, MustFinish: true, ObsNames: stdObs,
		Doc:   "RefCount.ResolveWithReleased: the holder obtains a value and keeps it; then (quiescence-gated) the value is invalidated by released(), SetContext(fresh), ClearContext, or SetContext(fresh) with a replacement resolver call that never returns (choice) while other references come and go; the released callback must have fired exactly once by the next quiescent state and never again",
		Quick: eng.Bounds{PB: 3, Delay: true}, Thorough: eng.Bounds{PB: 4, Delay: true},
		Body: func() {
			how := vsched.Choose(4)
			e := newRC2(bg, false, func(i int) int {
				if how == 3 && vsched.Ctr(xHolding) != 0 {
					return mLate // the resolver call replacing the held value does not return
				}
				return mValue
			})
			// optionally a callback-less keep-alive reference exists before everybody else (it comes first
			// when the references are notified)
			var keepAlive interface{ Release() }
			if vsched.Choose(2) == 1 {
				keepAlive = e.rc.AddRef(nil)
				vsched.CtrAdd(rcHeld, 1)
			}
			gI, gH, gF := &vsched.Gate{}, &vsched.Gate{}, &vsched.Gate{}
			vsched.OnQuiescent(func() bool {
				switch vsched.CtrAdd(xPhase, 1) {
				case 1:
					gI.Open()
					return true
				case 2:
					if vsched.Ctr(xHolding) != 0 && vsched.Ctr(xRelCb) != 1 {
						fail("C10.released-cb-count", "value invalidated while held: released callback fired %d times by the next quiescent state, want exactly 1", vsched.Ctr(xRelCb))
						return false
					}
					gH.Open()
					return true
				case 3:
					gF.Open()
					return true
				}
				return false
			})
			cancelAfter := vsched.Choose(2) == 1 // the caller cancels the context it passed once it has the value (defer cancel() pattern)
			T("H", func() {
				callCtx, callCancel := context.WithCancel(bg)
				label("ResolveWithReleased")
				v, rel, err := e.rc.ResolveWithReleased(callCtx, func() {
					if vsched.CtrAdd(xRelCb, 1) > 1 {
						fail("C10.released-cb-count", "released callback fired twice")
					}
				})
				label("")
				if err != nil {
					fail("C10.wrong-error", "ResolveWithReleased returned %v", err)
					return
				}
				if cancelAfter {
					callCancel()
				}
				vsched.CtrSet(xHolding, int64(v-100))
				vsched.CtrAdd(rcHeld, 1)
				heldValueOracle(v, "right after ResolveWithReleased returned")
				gH.Wait()
				vsched.CtrAdd(rcHeld, -1)
				rel()
				rel()
			})
			T("U1", func() { e.user(1, false, false) })
			T("I", func() {
				gI.Wait()
				if i := int(vsched.Ctr(xHolding)); how == 0 && i != 0 {
					if f, ok := vsched.GetCell(49 + i).(func()); ok {
						vsched.CtrSet(rcInv0+i, 1)
						f()
					}
				} else if how == 2 {
					e.setContext(nil)
				} else {
					e.setContext(context.WithValue(bg, ctxKey{}, 2))
				}
			})
			gF.Wait()
			if vsched.Ctr(xRelCb) > 1 {
				fail("C10.released-cb-count", "released callback fired %d times", vsched.Ctr(xRelCb))
			}
			if keepAlive != nil {
				vsched.CtrAdd(rcHeld, -1)
				keepAlive.Release()
				vsched.Settle()
			}
			e.finalRelease()
			e.setContext(nil)
			vsched.Settle()
			e.finalRelease()
		},
	})

	eng.Register(&eng.Scenario{
		Name: "refcount-released-race", Props: []string{"C10"}, MustFinish: true, ObsNames: stdObs,
		Doc:   "RefCount.ResolveWithReleased on an already resolved container (another reference is held) racing with a free-running invalidation (released() or context change, choice): no panic, released callback at most once, and exactly once if the invalidation completed while the value was held",
		Quick: eng.Bounds{PB: 2}, Thorough: eng.Bounds{PB: 3},
		Body: func() {
			how := vsched.Choose(2)
			e := newRC2(bg, false, first(mValue))
			keepRef := e.rc.AddRef(refCb(0))
			vsched.CtrSet(rcRefHeld+0, 1)
			vsched.CtrAdd(rcHeld, 1)
			vsched.Settle() // value 101 is resolved and current
			T("H", func() {
				label("ResolveWithReleased")
				v, rel, err := e.rc.ResolveWithReleased(bg, func() {
					if vsched.CtrAdd(xRelCb, 1) > 1 {
						fail("C10.released-cb-count", "released callback fired twice")
					}
				})
				label("")
				if err != nil {
					fail("C10.wrong-error", "ResolveWithReleased returned %v", err)
					return
				}
				heldValueOracle(v, "right after ResolveWithReleased returned")
				vsched.Point()
				rel()
			})
			T("I", func() {
				if how == 0 {
					if f, ok := vsched.GetCell(50).(func()); ok {
						vsched.CtrSet(rcInv0+1, 1)
						f()
					}
				} else {
					e.setContext(context.WithValue(bg, ctxKey{}, 2))
				}
			})
			vsched.Settle()
			vsched.CtrAdd(rcHeld, -1)
			vsched.CtrSet(rcRefHeld+0, 0)
			keepRef.Release()
			vsched.Settle()
			e.finalRelease()
		},
	})

	eng.Register(&eng.Scenario{
		Name: "refcount-keep-invalidate", Props: []string{"C09", "C10", "C08"}, MustFinish: true, ObsNames: stdObs,
		Doc:   "RefCount with keep-unreferenced: a value is resolved, the last reference is released (the value is kept), then while nothing is referenced the value is invalidated by released(), ClearContext;SetContext(fresh) or SetContext(fresh) (choice); a new consumer (AddRef, Wait or Access, choice) must get a value resolved afterwards, never the invalidated one, and the invalidated one is released exactly once",
		Quick: eng.Bounds{PB: 2, Delay: true}, Thorough: eng.Bounds{PB: 3, Delay: true},
		Body: func() {
			e := newRC2(bg, true, func(int) int { return mValue })
			how := vsched.Choose(3)
			consumer := vsched.Choose(3)
			r0 := e.rc.AddRef(refCb(0))
			vsched.Settle() // value 101 resolved
			r0.Release()
			vsched.Settle() // kept although unreferenced
			if vsched.Ctr(rcRel0+1) != 0 {
				fail("C08.released-while-current", "keep-unreferenced is set but value 101 was released when the last reference was dropped")
			}
			switch how {
			case 0:
				if f, ok := vsched.GetCell(50).(func()); ok {
					vsched.CtrSet(rcInv0+1, 1)
					f()
				}
			case 1:
				e.setContext(nil)
				e.setContext(context.WithValue(bg, ctxKey{}, 2))
			case 2:
				e.setContext(context.WithValue(bg, ctxKey{}, 2))
			}
			vsched.Settle()
			check := func(v int, who string) {
				if v == valOf(1) {
					fail("C10.stale-value", "%s obtained value %d although it had been invalidated (how=%d), with nothing in flight, before the call began", who, v, how)
				}
			}
			switch consumer {
			case 0:
				ref := e.rc.AddRef(refCb(2))
				vsched.CtrSet(rcRefHeld+2, 1)
				vsched.CtrAdd(rcHeld, 1)
				vsched.Settle()
				e.quiescentOracle([]int{2})
				if vsched.Ctr(rcLastRes+2) == 2 {
					check(int(vsched.Ctr(rcLastVal+2)), "a reference added afterwards")
				}
				vsched.CtrAdd(rcHeld, -1)
				vsched.CtrSet(rcRefHeld+2, 0)
				ref.Release()
			case 1:
				v, ref, err := e.rc.Wait(bg)
				if err != nil {
					fail("C10.wrong-error", "Wait returned %v", err)
					return
				}
				check(v, "Wait")
				heldValueOracle(v, "right after Wait returned")
				ref.Release()
			case 2:
				err := e.rc.Access(bg, func(cctx context.Context, v int) error {
					check(v, "the Access callback")
					return nil
				})
				if err != nil {
					fail("C10.wrong-error", "Access returned %v", err)
				}
			}
			vsched.Settle()
			e.setContext(nil)
			vsched.Settle()
			e.finalRelease()
		},
	})
	eng.Register(&eng.Scenario{
		Name: "refcount-reentrant", Props: []string{"C09", "C08"}, MustFinish: true, ObsNames: stdObs,
		Doc:   "RefCount used re-entrantly from code it runs with its mutex held: a reference callback rejects the first value by calling released() (choice: or the release function of the first value calls released() of its own call), while a second user comes and goes: nothing deadlocks, the rejected value is dropped and resolved afresh",
		Quick: eng.Bounds{PB: 2, Delay: true}, Thorough: eng.Bounds{PB: 3, Delay: true},
		Body: func() {
			how := vsched.Choose(2)
			e := newRC2(bg, false, func(int) int { return mValue })
			cb := func(resolved bool, val int, err error) {
				refCb(0)(resolved, val, err)
				if how == 0 && resolved && val == valOf(1) {
					if f, ok := vsched.GetCell(50).(func()); ok {
						vsched.CtrSet(rcInv0+1, 1)
						f() // reject the value from inside the callback
					}
				}
			}
			if how == 1 {
				e.onRelease = func(i int) {
					if f, ok := vsched.GetCell(49 + i).(func()); ok {
						f() // a (pointless but harmless) released() from inside the release function
					}
				}
			}
			label("AddRef")
			ref := e.rc.AddRef(cb)
			label("")
			vsched.CtrSet(rcRefHeld+0, 1)
			vsched.CtrAdd(rcHeld, 1)
			T("U1", func() { e.user(1, false, false) })
			vsched.Settle()
			e.quiescentOracle([]int{0})
			vsched.CtrAdd(rcHeld, -1)
			vsched.CtrSet(rcRefHeld+0, 0)
			label("Release")
			ref.Release()
			label("")
			vsched.Settle()
			e.finalRelease()
			e.setContext(nil)
			vsched.Settle()
			e.finalRelease()
		},
	})
	eng.Register(&eng.Scenario{
		Name: "refcount-zero-value", Props: []string{"C10", "C09", "C08"}, MustFinish: true, ObsNames: stdObs,
		Doc:   "RefCount whose resolver legitimately resolves the zero value (0, nil): a ResolveWithReleased holder and an Access callback parked on that value; then (quiescence-gated) the value is invalidated by released() or SetContext(fresh) (choice) while the replacement resolver call does not return: the released callback fires exactly once and the Access callback's context is cancelled",
		Quick: eng.Bounds{PB: 2, Delay: true}, Thorough: eng.Bounds{PB: 3, Delay: true},
		Body: func() {
			how := vsched.Choose(2)
			target := ccontainer.NewCContainer[int](0)
			var rc *refcount.RefCount[int]
			rc = refcount.NewRefCount[int](bg, false, target, nil, func(rctx context.Context, released func()) (int, func(), error) {
				i := int(vsched.CtrAdd(rcCalls, 1))
				if i >= 8 {
					fail("infra.too-many-resolves", "more than 8 resolver calls")
					return 0, nil, errResolve
				}
				vsched.SetCell(49+i, released)
				if vsched.Ctr(xHolding) != 0 {
					<-rctx.Done() // the replacement call does not return
					return 0, nil, context.Canceled
				}
				return 0, func() {
					vsched.CtrAdd(rcRel0+i, 1)
					// (C08) when the release function of a value runs every reference has been told it is gone
					if vsched.Ctr(rcLastRes+5) == 2 {
						fail("C08.ref-not-told", "release function of the (zero) value of call %d runs but the held reference was last told (true, 0)", i)
					}
				}, nil
			})
			watch := rc.AddRef(func(resolved bool, v int, err error) { vsched.CtrSet(rcLastRes+5, 1+b2i(resolved)) })
			defer watch.Release()
			gI, gF := &vsched.Gate{}, &vsched.Gate{}
			vsched.OnQuiescent(func() bool {
				switch vsched.CtrAdd(xPhase, 1) {
				case 1:
					gI.Open()
					return true
				case 2:
					gF.Open()
					return true
				}
				return false
			})
			T("H", func() {
				label("ResolveWithReleased")
				v, rel, err := rc.ResolveWithReleased(bg, func() { vsched.CtrAdd(xRelCb, 1) })
				label("")
				if err != nil || v != 0 {
					fail("C10.wrong-error", "ResolveWithReleased returned (%d,%v)", v, err)
					return
				}
				vsched.CtrSet(xHolding, 1)
				gF.Wait()
				rel()
			})
			actx, acancel := context.WithCancel(bg)
			defer acancel()
			T("A", func() {
				label("Access")
				rc.Access(actx, func(cctx context.Context, v int) error {
					if vsched.CtrAdd(xInvoc, 1) == 1 {
						label("Access-callback")
						<-cctx.Done()
						label("Access")
					}
					return nil
				})
				label("")
			})
			T("I", func() {
				gI.Wait()
				if vsched.Ctr(xHolding) == 0 {
					return
				}
				if f, ok := vsched.GetCell(50).(func()); ok && how == 0 {
					f()
				} else {
					rc.SetContext(context.WithValue(bg, ctxKey{}, 2))
				}
			})
			gF.Wait()
			if vsched.Ctr(xHolding) != 0 {
				if vsched.Ctr(xInvoc) == 0 {
					fail("C10.access-stuck", "the zero value was resolved (a ResolveWithReleased caller obtained it) but Access never invoked its callback with it: a resolved zero value is a value")
				}
				if n := vsched.Ctr(xRelCb); n != 1 {
					fail("C10.released-cb-count", "the zero value held through ResolveWithReleased was invalidated: released callback fired %d times by the next quiescent state, want exactly 1", n)
				}
				if vsched.CountParked("Access-callback") > 0 {
					fail("C10.cb-not-cancelled", "Access callback still parked on the zero value after it was invalidated: its context was not cancelled")
				}
			}
			acancel()
			rc.ClearContext()
			vsched.Settle()
		},
	})

	eng.Register(&eng.Scenario{
		Name: "refcount-access-equal", Props: []string{"C10"}, MustFinish: true, ObsNames: stdObs,
		Doc:   "RefCount whose resolver returns the same (==) value on every call: an Access callback is parked on the first value; released() (or SetContext(fresh), choice) invalidates it and an equal replacement is resolved: the callback's context is cancelled and, after it returns, the callback is invoked again; Access returns the second invocation's result, never the first one's context.Canceled",
		Quick: eng.Bounds{PB: 2, Delay: true}, Thorough: eng.Bounds{PB: 3, Delay: true},
		Body: func() {
			how := vsched.Choose(2)
			target := ccontainer.NewCContainer[int](0)
			rc := refcount.NewRefCount[int](bg, false, target, nil, func(rctx context.Context, released func()) (int, func(), error) {
				i := int(vsched.CtrAdd(rcCalls, 1))
				if i >= 8 {
					fail("infra.too-many-resolves", "more than 8 resolver calls")
					return 0, nil, errResolve
				}
				vsched.SetCell(49+i, released)
				return 7, func() { vsched.CtrAdd(rcRel0+i, 1) }, nil
			})
			T("A", func() {
				label("Access")
				err := rc.Access(bg, func(cctx context.Context, v int) error {
					k := vsched.CtrAdd(xInvoc, 1)
					vsched.Observe(oCb, k, int64(v), 0)
					if v != 7 {
						fail("C10.bogus-value", "Access callback invoked with %d", v)
					}
					if k == 1 {
						label("Access-callback")
						<-cctx.Done()
						label("Access")
						return context.Canceled
					}
					return nil
				})
				label("")
				vsched.Observe(oRet, errCode(err), 0, 0)
				if err == context.Canceled {
					fail("C10.spurious-cancel", "Access returned context.Canceled although the caller's context is live: it returned the result of the invocation whose value had been invalidated instead of invoking the callback again with the (equal) replacement")
				} else if err != nil {
					fail("C10.wrong-error", "Access returned %v", err)
				}
			})
			vsched.Settle() // the callback is parked on the first value
			if f, ok := vsched.GetCell(50).(func()); ok && how == 0 {
				f()
			} else {
				rc.SetContext(context.WithValue(bg, ctxKey{}, 2))
			}
			vsched.Settle()
			if vsched.CountParked("Access-callback") > 0 {
				fail("C10.cb-not-cancelled", "Access callback still parked after its value was invalidated (the replacement is an equal value)")
			}
			if n := vsched.Ctr(xInvoc); n != 2 {
				fail("C10.stale-result", "the Access callback was invoked %d time(s); want 2 (once per value: the first value was invalidated during the callback)", n)
			}
			rc.ClearContext()
			vsched.Settle()
		},
	})

	eng.Register(&eng.Scenario{
		Name: "refcount-stale-released", Props: []string{"C08", "C09", "C10"}, MustFinish: true, ObsNames: stdObs,
		Doc:   "RefCount: the first resolver call returns a value or an error (choice) and keeps its released callback; the only reference is dropped and a new one added, so a second call resolves value 102, which stays held; then the stale released() of the first call is invoked (directly or from inside a reference callback, i.e. with the mutex busy; choice): it must be ignored - value 102 is neither released nor dropped and no third resolver call starts",
		Quick: eng.Bounds{PB: 2, Delay: true}, Thorough: eng.Bounds{PB: 3, Delay: true},
		Body: func() {
			firstMode := []int{mValue, mError, mErrorRel}[vsched.Choose(3)]
			busy := vsched.Choose(2) == 1
			e := newRC2(bg, vsched.Choose(2) == 1, first(firstMode))
			r1 := e.rc.AddRef(refCb(0))
			vsched.Settle()
			r1.Release()
			vsched.Settle()
			r2 := e.rc.AddRef(refCb(1))
			vsched.CtrSet(rcRefHeld+1, 1)
			vsched.CtrAdd(rcHeld, 1)
			vsched.Settle()
			stale, _ := vsched.GetCell(50).(func())
			if stale == nil || vsched.Ctr(rcCalls) < 2 {
				// keep-unreferenced with a value: no second call was needed; nothing stale to test
				vsched.CtrAdd(rcHeld, -1)
				vsched.CtrSet(rcRefHeld+1, 0)
				r2.Release()
				e.setContext(nil)
				vsched.Settle()
				return
			}
			alsoCurrent := busy && vsched.Choose(2) == 1
			if busy {
				// from inside a callback of a reference that is being added: the RefCount's mutex is held
				r3 := e.rc.AddRef(func(bool, int, error) {
					stale()
					if alsoCurrent {
						// ... followed, while the mutex is still busy, by the released() of the current value
						if cur, ok := vsched.GetCell(51).(func()); ok {
							vsched.CtrSet(rcInv0+2, 1)
							cur()
						}
					}
				})
				r3.Release()
			} else {
				stale()
			}
			vsched.Settle()
			if alsoCurrent {
				// the current value was really invalidated: dropped, released, resolved afresh
				if vsched.Ctr(rcCalls) != 3 || vsched.Ctr(rcRel0+2) != 1 || e.target.GetValue() != valOf(3) {
					fail("C09.invalidated-value-kept", "released() of the current value 102 (called right after a stale released(), both while the mutex was busy) was lost: resolver calls=%d, value 102 released %d times, target holds %d", vsched.Ctr(rcCalls), vsched.Ctr(rcRel0+2), e.target.GetValue())
				}
				e.quiescentOracle([]int{1})
				vsched.CtrAdd(rcHeld, -1)
				vsched.CtrSet(rcRefHeld+1, 0)
				r2.Release()
				vsched.Settle()
				e.finalRelease()
				e.setContext(nil)
				vsched.Settle()
				e.finalRelease()
				return
			}
			if n := vsched.Ctr(rcCalls); n != 2 {
				fail("C09.stale-released-restarts", "released() of the superseded first call made the RefCount start resolver call %d", n)
			}
			if vsched.Ctr(rcRel0+2) != 0 || e.target.GetValue() != valOf(2) {
				fail("C10.released-while-held", "released() of the superseded first call released or dropped value 102, which is held and was never invalidated (released %d times, target holds %d)", vsched.Ctr(rcRel0+2), e.target.GetValue())
			}
			e.quiescentOracle([]int{1})
			vsched.CtrAdd(rcHeld, -1)
			vsched.CtrSet(rcRefHeld+1, 0)
			r2.Release()
			vsched.Settle()
			e.finalRelease()
			e.setContext(nil)
			vsched.Settle()
			e.finalRelease()
		},
	})

	eng.Register(&eng.Scenario{
		Name: "refcount-promise", Props: []string{"C08", "C09", "C10"}, MustFinish: true, ObsNames: stdObs,
		Doc:   "RefCount.AddRefPromise: a long-lived promise of a held reference yields value 101; the value is invalidated by released() or SetContext(fresh) (choice) while the replacement resolver call does not return: a later Await on the same promise blocks (it does not hand out the value that was dropped and released); once the replacement is resolved (choice: or the context cleared) it returns the new value",
		Quick: eng.Bounds{PB: 2, Delay: true}, Thorough: eng.Bounds{PB: 3, Delay: true},
		Body: func() {
			how := vsched.Choose(2)
			g := &vsched.Gate{}
			e := newRC2(bg, false, func(i int) int { return mValue })
			e.gate2 = g // resolver call 2 waits for this gate before returning
			prom, ref := e.rc.AddRefPromise()
			vsched.CtrAdd(rcHeld, 1)
			vsched.Settle()
			if v, err := prom.Await(bg); v != valOf(1) || err != nil {
				fail("C10.wrong-error", "Await on the promise of AddRefPromise returned (%d,%v), want (101,nil)", v, err)
				return
			}
			if f, ok := vsched.GetCell(50).(func()); ok && how == 0 {
				vsched.CtrSet(rcInv0+1, 1)
				f()
			} else {
				e.setContext(context.WithValue(bg, ctxKey{}, 2))
			}
			vsched.Settle() // value 101 dropped and released; resolver call 2 is waiting at the gate
			T("A", func() {
				label("Promise.Await")
				v, err := prom.Await(bg)
				label("")
				vsched.Observe(oRet, int64(v), b2i(err != nil), 0)
				if v == valOf(1) {
					fail("C08.exposed-after-release", "the promise of AddRefPromise handed out value 101 after its release function had run (%d times)", vsched.Ctr(rcRel0+1))
					fail("C09.invalidated-value-kept", "value 101 was invalidated and dropped, yet a later Await on the reference's promise still returns it")
					fail("C10.stale-value", "Await returned value 101 although it had been invalidated, with nothing in flight, before the call began")
				} else if v != valOf(2) || err != nil {
					fail("C10.wrong-error", "Await returned (%d,%v), want the replacement (102,nil)", v, err)
				}
			})
			vsched.Settle()
			g.Open()
			vsched.Settle()
			if vsched.CountParked("Promise.Await") > 0 {
				fail("C09.result-not-delivered", "the replacement value 102 is resolved but Await on the reference's promise is still blocked")
			}
			vsched.CtrAdd(rcHeld, -1)
			ref.Release()
			vsched.Settle()
			e.finalRelease()
			e.setContext(nil)
			vsched.Settle()
			e.finalRelease()
		},
	})

	// Access
	accessBody := func(cbModes []int, firstMode int, callerCancel bool, ctxChange bool) func() {
		return func() {
			e := newRC2(bg, false, first(firstMode))
			ctx := bg
			var cancel context.CancelFunc
			if callerCancel {
				ctx, cancel = context.WithCancel(bg)
			}
			T("A", func() {
				label("Access")
				err := e.rc.Access(ctx, func(cctx context.Context, val int) error {
					k := int(vsched.CtrAdd(xInvoc, 1)) - 1
					if k >= 4 {
						fail("infra.too-many-invocations", "more than 4 Access callback invocations")
						return nil
					}
					i := val - 100
					vsched.Observe(oCb, int64(k), int64(val), 0)
					if i < 1 || i > 8 || vsched.Ctr(rcRet0+i) != 1 {
						fail("C10.bogus-value", "Access callback invoked with %d which no resolver call returned", val)
						return nil
					}
					vsched.CtrSet(xInvVal0+k, int64(i))
					mode := cbModes[len(cbModes)-1]
					if k < len(cbModes) {
						mode = cbModes[k]
					}
					var res error
					switch mode {
					case 0: // return nil at once
					case 1: // park until the callback context is done
						label("Access-callback")
						<-cctx.Done()
						label("Access")
						res = context.Canceled
					case 2: // return an error at once
						res = accessErrs[k]
					case 3, 4: // park until the callback context is done, then return nil / an error of its own
						label("Access-callback")
						<-cctx.Done()
						label("Access")
						if mode == 4 {
							res = accessErrs[k]
						}
						if vsched.Ctr(xCallerCxl) != 0 {
							vsched.CtrSet(xCxlBeforeRet, 1) // the caller's context was cancelled before this invocation returned
						}
					}
					if invalidated(i, false) {
						vsched.CtrSet(xInvStale0+k, 1)
					}
					vsched.CtrSet(xInvDone0+k, 1)
					return res
				})
				label("")
				vsched.Observe(oRet, errCode(err), 0, 0)
				n := int(vsched.Ctr(xInvoc))
				switch {
				case err == errResolve:
					found := false
					for i := 1; i <= int(vsched.Ctr(rcCalls)); i++ {
						found = found || vsched.Ctr(rcRet0+i) == 2
					}
					if !found {
						fail("C10.wrong-error", "Access returned the resolver error although no resolver call failed")
					}
				case err == context.Canceled:
					if vsched.Ctr(xCallerCxl) == 0 {
						// only legitimate as the result of a parked callback whose value was not invalidated: impossible here
						fail("C10.spurious-cancel", "Access returned context.Canceled although the caller's context is live")
					}
				default:
					if vsched.Ctr(xCxlBeforeRet) != 0 {
						fail("C10.caller-cancel-lost", "the caller's context was cancelled while the Access callback was running, but Access returned %v instead of context.Canceled", err)
						return
					}
					// nil or a callback error: it must be the result of an invocation on a value that was not invalidated
					ok := false
					for k := 0; k < n && k < 4; k++ {
						mode := cbModes[len(cbModes)-1]
						if k < len(cbModes) {
							mode = cbModes[k]
						}
						var res error
						if mode == 2 {
							res = accessErrs[k]
						}
						if mode != 1 && res == err && vsched.Ctr(xInvDone0+k) != 0 && vsched.Ctr(xInvStale0+k) == 0 {
							ok = true
						}
					}
					if !ok {
						fail("C10.stale-result", "Access returned %v, which is not the result of any callback invocation whose value was still valid when it returned (%d invocations)", err, n)
					}
				}
			})
			if callerCancel {
				T("C", func() { vsched.CtrSet(xCallerCxl, 1); cancel() })
			}
			if ctxChange {
				T("X", func() { e.setContext(context.WithValue(bg, ctxKey{}, 2)) })
			}
			T("U1", func() { e.user(1, false, false) })
			vsched.Settle()
			// promptness: nobody stays parked inside a callback whose value has been invalidated
			if vsched.CountParked("Access-callback") > 0 {
				n := int(vsched.Ctr(xInvoc))
				if n > 0 && n <= 4 {
					if i := int(vsched.Ctr(xInvVal0 + n - 1)); invalidated(i, true) {
						fail("C10.cb-not-cancelled", "Access callback still parked on value %d after it was invalidated: its context was not cancelled", valOf(i))
					}
				}
				if vsched.Ctr(xCallerCxl) != 0 {
					fail("C10.cb-not-cancelled", "Access callback still parked after the caller's context was cancelled")
				}
				// legitimately parked: value still valid. End the scenario by clearing the context.
			}
			if vsched.CountParked("Access") > 0 && vsched.Ctr(rcCtxSet) != 0 && vsched.Ctr(rcResolving) == 0 {
				fail("C10.access-stuck", "Access is parked outside its callback although a context is set and no resolver call is in progress")
			}
			e.setContext(nil)
			vsched.Settle()
		}
	}
	eng.Register(&eng.Scenario{
		Name: "refcount-access-park", Props: []string{"C10"}, ObsNames: stdObs,
		Doc:   "RefCount.Access whose callback parks until its context is done (first invocation) and returns nil afterwards; the first value is invalidated by released() from another thread: the callback context must be cancelled, the callback re-invoked with the replacement and Access must return the second invocation's result",
		Quick: eng.Bounds{PB: 3, Delay: true}, Thorough: eng.Bounds{PB: 4, Delay: true},
		Body: accessBody([]int{1, 0}, mInvalidate, false, false),
	})
	eng.Register(&eng.Scenario{
		Name: "refcount-access-fast", Props: []string{"C10"}, ObsNames: stdObs, RacePB: 2,
		Doc:   "RefCount.Access whose callback returns a distinct error at once per invocation, racing with released() and a context change: the returned error must belong to an invocation whose value was still valid when it returned",
		Quick: eng.Bounds{PB: 3, Delay: true}, Thorough: eng.Bounds{PB: 4, Delay: true},
		Body: accessBody([]int{2}, mInvalidate, false, true),
	})
	eng.Register(&eng.Scenario{
		Name: "refcount-access-cancel", Props: []string{"C10"}, ObsNames: stdObs,
		Doc:   "RefCount.Access with a callback that parks until its context is cancelled and then returns context.Canceled, nil or an error of its own (choice), caller-cancel thread, resolver script {value, error, slow} (choice): resolver error and caller cancellation are returned as such, the parked callback is cancelled",
		Quick: eng.Bounds{PB: 3, Delay: true}, Thorough: eng.Bounds{PB: 4, Delay: true},
		Body: func() {
			accessBody([]int{[]int{1, 3, 4}[vsched.Choose(3)]}, []int{mValue, mError, mSlow}[vsched.Choose(3)], true, false)()
		},
	})
}
