package scn

import (
	"context"
	"fmt"

	"github.com/aperturerobotics/util/refcount"
	"github.com/aperturerobotics/util/zzverif/vsched"
	"verifharness/eng"
)

// refcount-history: every sequence of operations of a given depth on a RefCount, settled after every
// operation, compared with the obvious reference: SetContext reports whether the context it was given
// differs from the previous one; with a context and a reference the latest result is delivered
// (quiescentOracle); a value whose released() was invoked is released by the next quiescent state; when
// nothing is referenced (and nothing may be kept) every returned release function ran exactly once.
func refcountHistory(depth int) func() {
	return func() {
		bg := context.Background()
		c1 := context.WithValue(bg, ctxKey{}, 1)
		c2 := context.WithValue(bg, ctxKey{}, 2)
		var cur context.Context
		if vsched.Choose(2) == 1 {
			cur = c1
		}
		keep := vsched.Choose(2) == 1
		first := []int{mValue, mError, mErrorRel, mZeroRel}[vsched.Choose(4)]
		e := newRC2(cur, keep, func(i int) int {
			if i == 1 {
				return first
			}
			return mValue
		})
		hist := []string{fmt.Sprintf("config{ctx=%v keep=%v first=%d}", cur != nil, keep, first)}
		var refs [2]*refcount.Ref[int]
		var stale *refcount.Ref[int] // the handle released most recently
		held := func() []int {
			var h []int
			for j, r := range refs {
				if r != nil {
					h = append(h, j)
				}
			}
			return h
		}
		setCtx := func(name string, ctx context.Context) bool {
			hist = append(hist, "SetContext("+name+")")
			want := ctx != cur
			if want {
				vsched.CtrAdd(rcCtxChange, 1)
			}
			vsched.CtrSet(rcCtxSet, b2i(ctx != nil))
			got := e.rc.SetContext(ctx)
			if want {
				vsched.CtrAdd(rcCtxDone, 1)
			}
			cur = ctx
			if got != want {
				fail("C09.setcontext-flag", "%v: SetContext returned %v, want %v (whether the context was updated)", hist, got, want)
				return false
			}
			return true
		}
		for step := 0; step < depth; step++ {
			l := vsched.Choose(8)
			vsched.Observe(oOp, int64(l), 0, 0)
			switch l {
			case 0, 1:
				j := l
				if refs[j] != nil {
					hist = append(hist, fmt.Sprintf("Release(#%d)", j))
					vsched.CtrAdd(rcHeld, -1)
					vsched.CtrSet(rcRefHeld+j, 0)
					refs[j].Release()
					stale = refs[j]
					refs[j] = nil
				} else {
					hist = append(hist, fmt.Sprintf("AddRef(#%d)", j))
					vsched.CtrSet(rcLastRes+j, 0)
					refs[j] = e.rc.AddRef(refCb(j))
					vsched.CtrSet(rcRefHeld+j, 1)
					vsched.CtrAdd(rcHeld, 1)
				}
			case 2:
				if !setCtx("c1", c1) {
					return
				}
			case 3:
				if !setCtx("c2", c2) {
					return
				}
			case 4:
				if !setCtx("nil", nil) {
					return
				}
			case 5:
				hist = append(hist, "SetContext(same)")
				if e.rc.SetContext(cur) {
					fail("C09.setcontext-flag", "%v: SetContext with the context already in use returned true", hist)
					return
				}
			case 6:
				// the resolver invalidates the value of its latest call
				n := int(vsched.Ctr(rcCalls))
				f, ok := vsched.GetCell(49 + n).(func())
				if n == 0 || !ok {
					continue
				}
				hist = append(hist, fmt.Sprintf("released()#%d", n))
				vsched.CtrSet(rcInv0+n, 1)
				f()
			case 7:
				// an extra Release on a reference already released is a no-op - also when it comes late,
				// after other references have been added
				if stale != nil {
					hist = append(hist, "Release(again, the handle released last)")
					stale.Release()
					break
				}
				hist = append(hist, "AddRef(nil cb);Release;Release")
				r := e.rc.AddRef(nil)
				r.Release()
				r.Release()
			}
			vsched.Settle()
			vsched.SetCell(40, fmt.Sprint(hist))
			e.quiescentOracle(held())
			if len(held()) == 0 {
				e.finalRelease()
			}
		}
		for j, r := range refs {
			if r != nil {
				vsched.CtrAdd(rcHeld, -1)
				vsched.CtrSet(rcRefHeld+j, 0)
				r.Release()
			}
		}
		vsched.Settle()
		e.finalRelease()
		setCtx("nil", nil)
		vsched.Settle()
		e.finalRelease()
	}
}

func init() {
	doc := "RefCount: every sequence of %d operations over {AddRef/Release #0, AddRef/Release #1, SetContext(c1|c2|nil|same), released() of the latest resolver call, AddRef(nil);Release;Release / a late repeated Release of the handle released last} x initial context {nil,c1} x keep-unreferenced {f,t} x first resolver outcome {value, error, error+value+release, zero value+release}; settled after every operation: SetContext's result, latest-result-delivered, invalidated-means-released and release-exactly-once are checked in every state"
	eng.Register(&eng.Scenario{
		Name: "refcount-history", Props: []string{"C09", "C08"}, QuickOnly: true, Det: true, NoRace: true, MustFinish: true, ObsNames: stdObs,
		Doc:   fmt.Sprintf(doc, 5),
		Quick: eng.Bounds{PB: 0}, Thorough: eng.Bounds{PB: 0},
		Body: refcountHistory(5),
	})
	eng.Register(&eng.Scenario{
		Name: "refcount-history-deep", Props: []string{"C09", "C08"}, ThoroughOnly: true, Det: true, NoRace: true, MustFinish: true, ObsNames: stdObs,
		Doc:   fmt.Sprintf(doc, 6),
		Quick: eng.Bounds{PB: 0}, Thorough: eng.Bounds{PB: 0, Cap: 60000000},
		Body: refcountHistory(6),
	})
}
