package scn

import (
	"bytes"
	"errors"
	"fmt"
	"io"
	"sort"

	"github.com/aperturerobotics/util/iocloser"
	"github.com/aperturerobotics/util/ioproxy"
	"github.com/aperturerobotics/util/ioseek"
	"github.com/aperturerobotics/util/iosizer"
	"github.com/aperturerobotics/util/unique"
	"github.com/aperturerobotics/util/zzverif/vsched"
	"verifharness/eng"
)

// enumSeq calls f for every sequence of `depth` letters over nletters, sharded by index.
func enumSeq(depth, nletters, shard, nshards int, f func(seq []int)) {
	seq := make([]int, depth)
	total := 1
	for i := 0; i < depth; i++ {
		total *= nletters
	}
	for idx := shard; idx < total; idx += nshards {
		x := idx
		for i := 0; i < depth; i++ {
			seq[i] = x % nletters
			x /= nletters
		}
		f(seq)
	}
}

var errStream = errors.New("stream-error")

type readerAtFunc func(p []byte, off int64) (int, error)

func (f readerAtFunc) ReadAt(p []byte, off int64) (int, error) { return f(p, off) }

type scriptRW struct {
	calls int
	resp  func(call int, p []byte) (int, error)
}

// constRW is a stateless stream (safe to share between threads): every call transfers n bytes.
type constRW struct{ n int }

func (s constRW) Read(p []byte) (int, error)  { return s.n, nil }
func (s constRW) Write(p []byte) (int, error) { return s.n, nil }

func (s *scriptRW) Read(p []byte) (int, error)  { s.calls++; return s.resp(s.calls, p) }
func (s *scriptRW) Write(p []byte) (int, error) { s.calls++; return s.resp(s.calls, p) }

func init() {
	// ---- ioseek ----
	eng.Register(&eng.Scenario{
		Name: "ioseek-history", Props: []string{"C20"}, NoRace: true,
		Doc: "ioseek.ReaderAtSeeker over 5 bytes: every sequence of 4 (5 thorough) calls over Seek(offset in {-6,-1,0,1,3,5,6}, whence in {0,1,2,3}) and Read(len in {0,1,2,7}) against an offset+slice model",
		Direct: func(rep *eng.DirectReport, shard, nshards int, thorough bool) {
			data := []byte{10, 11, 12, 13, 14}
			offs := []int64{-6, -1, 0, 1, 3, 5, 6}
			lens := []int{0, 1, 2, 7}
			nl := len(offs)*4 + len(lens)
			depth := 4
			if thorough {
				depth = 5
			}
			enumSeq(depth, nl, shard, nshards, func(seq []int) {
				rep.Cases++
				r := ioseek.NewReaderAtSeeker(bytes.NewReader(data), int64(len(data)))
				pos := int64(0)
				hist := ""
				moved := false
				for _, l := range seq {
					if l < len(offs)*4 {
						off, wh := offs[l/4], l%4
						hist += fmt.Sprintf("Seek(%d,%d) ", off, wh)
						var np int64
						valid := true
						switch wh {
						case io.SeekStart:
							np = off
						case io.SeekCurrent:
							np = pos + off
						case io.SeekEnd:
							np = int64(len(data)) + off
						default:
							valid = false
						}
						got, err := r.Seek(off, wh)
						if !valid || np < 0 || np > int64(len(data)) {
							if err == nil {
								rep.Fail("C20.seek-accepts-out-of-range", fmt.Sprintf("Seek returned (%d,nil) for an out-of-range target", got), hist)
								return
							}
						} else {
							if err != nil || got != np {
								rep.Fail("C20.seek-result", fmt.Sprintf("Seek returned (%d,%v), model %d", got, err, np), hist)
								return
							}
							pos = np
							moved = moved || np != 0
						}
					} else {
						n := lens[l-len(offs)*4]
						hist += fmt.Sprintf("Read(%d) ", n)
						buf := make([]byte, n)
						got, err := r.Read(buf)
						want := int64(n)
						if rem := int64(len(data)) - pos; want > rem {
							want = rem
						}
						if int64(got) != want || !bytes.Equal(buf[:got], data[pos:pos+want]) {
							rep.Fail("C20.read-data", fmt.Sprintf("Read returned %d bytes %v at position %d, model %d bytes %v", got, buf[:got], pos, want, data[pos:pos+want]), hist)
							return
						}
						if err != nil && err != io.EOF {
							rep.Fail("C20.read-error", fmt.Sprintf("Read returned %v", err), hist)
							return
						}
						if err == io.EOF && int64(got) == int64(n) && n > 0 {
							rep.Fail("C20.read-error", "Read filled the whole buffer and reported EOF", hist)
							return
						}
						if err == nil && got < n {
							rep.Fail("C20.read-error", "short Read without EOF", hist)
							return
						}
						pos += want
					}
				}
				if moved {
					rep.Nontrivial++
				}
				if rep.Cases == 777 {
					rep.Sample(hist)
				}
			})
			rep.Class("sequences")
		},
	})

	eng.Register(&eng.Scenario{
		Name: "ioseek-faults", Props: []string{"C20"}, NoRace: true,
		Doc: "ioseek.ReaderAtSeeker over a wrapped ReaderAt that, on its k-th call (every k), returns a partial read together with a non-EOF error, with io.ErrUnexpectedEOF or with a premature io.EOF: every sequence of 3 (4 thorough) calls over Seek / Read; position and data follow the offset+slice model (the position advances by the returned count)",
		Direct: func(rep *eng.DirectReport, shard, nshards int, thorough bool) {
			data := []byte{10, 11, 12, 13, 14, 15, 16, 17}
			type letter struct {
				seek   bool
				off    int64
				whence int
				n      int
			}
			var letters []letter
			for _, off := range []int64{-1, 0, 2, 3} {
				for wh := 0; wh < 3; wh++ {
					letters = append(letters, letter{seek: true, off: off, whence: wh})
				}
			}
			for _, n := range []int{1, 3, 5} {
				letters = append(letters, letter{n: n})
			}
			depth := 3
			if thorough {
				depth = 4
			}
			for faultAt := 1; faultAt <= depth; faultAt++ {
				for mode := 0; mode < 3; mode++ {
					faultAt, mode := faultAt, mode
					enumSeq(depth, len(letters), shard, nshards, func(seq []int) {
						rep.Cases++
						calls := 0
						var faulted bool
						ra := readerAtFunc(func(p []byte, off int64) (int, error) {
							calls++
							n, err := bytes.NewReader(data).ReadAt(p, off)
							if calls == faultAt && n > 1 {
								faulted = true
								if mode == 0 {
									return n - 1, errStream // partial read with an error
								}
								if mode == 2 {
									return n - 1, io.EOF // the wrapped reader ends early once: the declared size stays what it is
								}
								return n - 1, io.ErrUnexpectedEOF
							}
							return n, err
						})
						r := ioseek.NewReaderAtSeeker(ra, int64(len(data)))
						pos := int64(0)
						hist := fmt.Sprintf("fault on ReadAt #%d mode %d: ", faultAt, mode)
						for _, li := range seq {
							l := letters[li]
							if l.seek {
								hist += fmt.Sprintf("Seek(%d,%d) ", l.off, l.whence)
								np := l.off
								if l.whence == io.SeekCurrent {
									np = pos + l.off
								} else if l.whence == io.SeekEnd {
									np = int64(len(data)) + l.off
								}
								got, err := r.Seek(l.off, l.whence)
								if np < 0 || np > int64(len(data)) {
									if err == nil {
										rep.Fail("C20.seek-accepts-out-of-range", fmt.Sprintf("Seek returned (%d,nil) for an out-of-range target", got), hist)
										return
									}
								} else {
									if err != nil || got != np {
										rep.Fail("C20.seek-result", fmt.Sprintf("Seek returned (%d,%v), model %d", got, err, np), hist)
										return
									}
									pos = np
								}
							} else {
								hist += fmt.Sprintf("Read(%d) ", l.n)
								buf := make([]byte, l.n)
								got, _ := r.Read(buf)
								if got < 0 || pos+int64(got) > int64(len(data)) || !bytes.Equal(buf[:got], data[pos:pos+int64(got)]) {
									rep.Fail("C20.read-data", fmt.Sprintf("Read returned %d bytes %v at position %d", got, buf[:got], pos), hist)
									return
								}
								pos += int64(got) // like io.SectionReader: the position advances by the returned count
							}
						}
						if faulted {
							rep.Nontrivial++
						}
						if rep.Cases == 321 {
							rep.Sample(hist)
						}
					})
				}
			}
			rep.Class("sequences")
		},
	})

	// ---- iosizer ----
	eng.Register(&eng.Scenario{
		Name: "iosizer-history", Props: []string{"C20"}, NoRace: true,
		Doc: "iosizer.SizeReadWriter: every sequence of 5 (6 thorough) Read/Write calls whose wrapped stream answers from {(0,nil),(1,nil),(3,nil),(0,EOF),(2,EOF),(0,err)}; TotalSize equals the sum of the returned counts, results are passed through; nil reader/writer",
		Direct: func(rep *eng.DirectReport, shard, nshards int, thorough bool) {
			type resp struct {
				n   int
				err error
			}
			resps := []resp{{0, nil}, {1, nil}, {3, nil}, {0, io.EOF}, {2, io.EOF}, {0, errStream}}
			depth := 5
			if thorough {
				depth = 6
			}
			enumSeq(depth, 2*len(resps), shard, nshards, func(seq []int) {
				rep.Cases++
				i := 0
				answer := func(call int, p []byte) (int, error) { r := resps[seq[i]%len(resps)]; return r.n, r.err }
				rd, wr := &scriptRW{resp: answer}, &scriptRW{resp: answer}
				s := iosizer.NewSizeReadWriter(rd, wr)
				sum := uint64(0)
				hist := ""
				for i = 0; i < len(seq); i++ {
					want := resps[seq[i]%len(resps)]
					var n int
					var err error
					buf := make([]byte, 4)
					if seq[i] < len(resps) {
						hist += fmt.Sprintf("Read->(%d,%v) ", want.n, want.err)
						n, err = s.Read(buf)
					} else {
						hist += fmt.Sprintf("Write->(%d,%v) ", want.n, want.err)
						n, err = s.Write(buf)
					}
					if n != want.n || err != want.err {
						rep.Fail("C20.iosizer-passthrough", fmt.Sprintf("returned (%d,%v), the wrapped stream returned (%d,%v)", n, err, want.n, want.err), hist)
						return
					}
					sum += uint64(n)
					if s.TotalSize() != sum {
						rep.Fail("C20.iosizer-total", fmt.Sprintf("TotalSize=%d, sum of returned counts=%d", s.TotalSize(), sum), hist)
						return
					}
				}
				if sum > 0 {
					rep.Nontrivial++
				}
				if rep.Cases == 555 {
					rep.Sample(hist)
				}
			})
			// nil streams
			e := iosizer.NewSizeReadWriter(nil, nil)
			if n, err := e.Read(make([]byte, 2)); n != 0 || err != io.EOF {
				rep.Fail("C20.iosizer-nil", fmt.Sprintf("Read with a nil reader returned (%d,%v)", n, err), "nil reader")
			}
			if n, err := e.Write(make([]byte, 2)); n != 0 || err != io.EOF || e.TotalSize() != 0 {
				rep.Fail("C20.iosizer-nil", fmt.Sprintf("Write with a nil writer returned (%d,%v)", n, err), "nil writer")
			}
			rep.Class("sequences")
		},
	})

	// ---- iocloser ----
	eng.Register(&eng.Scenario{
		Name: "iocloser-history", Props: []string{"C20"}, NoRace: true,
		Doc: "iocloser.ReadCloser / WriteCloser: every sequence of 10 (14 thorough) calls over {Read|Write, Close}, close function returning nil, returning an error, or nil; wrapped stream transferring fully, short with an error, or reporting EOF: data and errors pass through until Close, the close function runs exactly once, afterwards EOF without touching the wrapped stream",
		Direct: func(rep *eng.DirectReport, shard, nshards int, thorough bool) {
			depth := 10
			if thorough {
				depth = 14
			}
			enumSeq(depth, 2, shard, nshards, func(seq []int) {
				for variant := 0; variant < 18; variant++ {
					rep.Cases++
					// close function: returns nil | returns an error | is nil; wrapped stream: full transfer | short transfer with an error
					writer, closeErr, nilClose, faulty, atEOF := variant%2 == 1, (variant/2)%3 == 1, (variant/2)%3 == 2, variant/6 == 1, variant/6 == 2
					calls, closes := 0, 0
					wantN, wantErr := 3, error(nil)
					if faulty {
						wantN, wantErr = 2, errStream
					}
					if atEOF {
						// the wrapped stream reports EOF on every call: still the stream's answer, passed through
						// call by call until Close (an EOF need not be final: the source may be refilled)
						wantN, wantErr = 0, io.EOF
					}
					st := &scriptRW{resp: func(call int, p []byte) (int, error) { calls++; return wantN, wantErr }}
					var cerr error
					if closeErr {
						cerr = errStream
					}
					closeFn := func() error { closes++; return cerr }
					wantCloses := 1
					if nilClose {
						closeFn, wantCloses = nil, 0
					}
					var rc io.Closer
					var op func([]byte) (int, error)
					if writer {
						w := iocloser.NewWriteCloser(st, closeFn)
						rc, op = w, w.Write
					} else {
						r := iocloser.NewReadCloser(st, closeFn)
						rc, op = r, r.Read
					}
					closed := false
					hist := fmt.Sprintf("writer=%v closeErr=%v nilCloseFn=%v faultyStream=%v streamAtEOF=%v: ", writer, closeErr, nilClose, faulty, atEOF)
					for _, l := range seq {
						if l == 0 {
							hist += "IO "
							before := calls
							n, err := op(make([]byte, 3))
							if closed {
								if n != 0 || err != io.EOF || calls != before {
									rep.Fail("C20.iocloser-after-close", fmt.Sprintf("after Close: returned (%d,%v), wrapped stream called %d more times", n, err, calls-before), hist)
									return
								}
							} else if n != wantN || err != wantErr || calls != before+1 {
								rep.Fail("C20.iocloser-passthrough", fmt.Sprintf("before Close: returned (%d,%v), wrapped stream called %d times", n, err, calls-before), hist)
								return
							}
						} else {
							hist += "Close "
							err := rc.Close()
							if !closed && err != cerr {
								rep.Fail("C20.iocloser-close-result", fmt.Sprintf("first Close returned %v, close function returned %v", err, cerr), hist)
								return
							}
							if closed && err != nil {
								rep.Fail("C20.iocloser-close-result", fmt.Sprintf("repeated Close returned %v", err), hist)
								return
							}
							closed = true
							if closes != wantCloses {
								rep.Fail("C20.iocloser-close-count", fmt.Sprintf("close function ran %d times", closes), hist)
								return
							}
						}
					}
					if closed {
						rep.Nontrivial++
					}
					if rep.Cases == 100 {
						rep.Sample(hist)
					}
				}
			})
			rep.Class("sequences")
		},
	})
	eng.Register(&eng.Scenario{
		Name: "iocloser-race", Props: []string{"C20"}, MustFinish: true, ObsNames: stdObs,
		Doc:   "iocloser.ReadCloser and WriteCloser (choice): a reader/writer thread doing two operations races with two Close callers; the close function runs exactly once and the wrapped stream is never entered after a Close has returned",
		Quick: eng.Bounds{PB: 3}, Thorough: eng.Bounds{PB: 6},
		Body: func() {
			const cCloses, cClosedRet, cInStream = 0, 1, 2
			writer := vsched.Choose(2) == 1
			st := &scriptRW{resp: func(call int, p []byte) (int, error) {
				if vsched.Ctr(cClosedRet) != 0 {
					fail("C20.iocloser-after-close", "the wrapped stream was entered after Close had returned")
				}
				vsched.CtrAdd(cInStream, 1)
				vsched.Point()
				vsched.CtrAdd(cInStream, -1)
				return len(p), nil
			}}
			reentrant := vsched.Choose(2) == 1 // the close function itself uses the wrapper (it is called without the wrapper's lock)
			var rc io.Closer
			var op func([]byte) (int, error)
			closeFn := func() error {
				if vsched.CtrAdd(cCloses, 1) > 1 {
					fail("C20.iocloser-close-count", "close function ran twice")
				}
				if reentrant {
					if n, err := op(make([]byte, 1)); n != 0 || err != io.EOF {
						fail("C20.iocloser-after-close", "an operation issued from inside the close function returned (%d,%v), want (0,EOF)", n, err)
					}
					if err := rc.Close(); err != nil {
						fail("C20.iocloser-close-result", "Close from inside the close function returned %v", err)
					}
				}
				return nil
			}
			if writer {
				w := iocloser.NewWriteCloser(st, closeFn)
				rc, op = w, w.Write
			} else {
				r := iocloser.NewReadCloser(st, closeFn)
				rc, op = r, r.Read
			}
			T("IO", func() {
				for i := 0; i < 2; i++ {
					n, err := op(make([]byte, 2))
					vsched.Observe(oRet, int64(n), b2i(err != nil), 0)
					if !(n == 2 && err == nil) && !(n == 0 && err == io.EOF) {
						fail("C20.iocloser-passthrough", "operation returned (%d,%v)", n, err)
					}
				}
			})
			for i := 0; i < 2; i++ {
				T("CL", func() {
					rc.Close()
					vsched.CtrSet(cClosedRet, 1)
				})
			}
			vsched.Settle()
			if vsched.Ctr(cCloses) != 1 {
				fail("C20.iocloser-close-count", "close function ran %d times", vsched.Ctr(cCloses))
			}
		},
	})

	// ---- iosizer concurrent (C13 coverage of SizeReadWriter + lost-update oracle) ----
	eng.Register(&eng.Scenario{
		Name: "iosizer-concurrent", Props: []string{"C20"}, MustFinish: true, ObsNames: stdObs,
		Doc:   "iosizer.SizeReadWriter: two readers, a writer and a TotalSize poller concurrently; the total is the sum of all returned counts and never decreases",
		Quick: eng.Bounds{PB: 3}, Thorough: eng.Bounds{PB: 6},
		Body: func() {
			s := iosizer.NewSizeReadWriter(constRW{2}, constRW{3})
			T("R1", func() { s.Read(make([]byte, 4)) })
			T("R2", func() { s.Read(make([]byte, 4)); s.Read(make([]byte, 4)) })
			T("W", func() { s.Write(make([]byte, 4)) })
			T("P", func() {
				a := s.TotalSize()
				b := s.TotalSize()
				vsched.Observe(oVal, int64(a), int64(b), 0)
				if b < a {
					fail("C20.iosizer-total", "TotalSize went from %d to %d", a, b)
				}
			})
			vsched.Settle()
			if t := s.TotalSize(); t != 9 {
				fail("C20.iosizer-total", "TotalSize=%d after reads of 2+2+2 and a write of 3", t)
			}
		},
	})

	// ---- ioproxy ----
	eng.Register(&eng.Scenario{
		Name: "ioproxy", Props: []string{"C20"}, MustFinish: true, ObsNames: stdObs,
		Doc:   "ioproxy.ProxyStreams between two scripted streams whose reads deliver a 4-byte and a 3-byte message in every chunking (choice, incl. short reads); once both directions are quiet the remote side of stream 1 ends (EOF): every byte arrived in order in both directions, both sides are closed, the callback ran exactly twice",
		Quick: eng.Bounds{PB: 2}, Thorough: eng.Bounds{PB: 3},
		Body: func() {
			const cCb, cPhase = 0, 1
			mkChunks := func(msg []byte) [][]byte {
				var out [][]byte
				start := 0
				for i := 1; i <= len(msg); i++ {
					if i == len(msg) || vsched.Choose(2) == 1 {
						out = append(out, msg[start:i])
						start = i
					}
				}
				return out
			}
			s1 := newProxyStream(1, mkChunks([]byte{1, 2, 3, 4}), true)
			s2 := newProxyStream(2, mkChunks([]byte{5, 6, 7}), false)
			if vsched.Choose(2) == 1 {
				s1.endErr = errStream // stream 1 ends with a read error instead of EOF: everything is torn down all the same
			}
			if vsched.Choose(2) == 1 {
				s1.strict, s2.strict = true, true // closing an already closed stream is an error (each direction closes both streams)
			}
			gF := &vsched.Gate{}
			vsched.OnQuiescent(func() bool {
				switch vsched.CtrAdd(cPhase, 1) {
				case 1:
					// both directions delivered and both pumps are parked in Read
					if !bytes.Equal(s2.writtenBytes(), []byte{1, 2, 3, 4}) || !bytes.Equal(s1.writtenBytes(), []byte{5, 6, 7}) {
						fail("C20.ioproxy-data", "once quiet: stream 2 received %v (want [1 2 3 4]), stream 1 received %v (want [5 6 7])", s2.writtenBytes(), s1.writtenBytes())
						return false
					}
					s1.eof.Open()
					return true
				case 2:
					gF.Open()
					return true
				}
				return false
			})
			ioproxy.ProxyStreams(s1, s2, func() { vsched.CtrAdd(cCb, 1) })
			gF.Wait()
			if n := vsched.Ctr(cCb); n != 2 {
				fail("C20.ioproxy-callback", "callback ran %d times, want exactly 2", n)
			}
			if s1.closes() == 0 || s2.closes() == 0 {
				fail("C20.ioproxy-close", "stream closes: s1=%d s2=%d, both must be closed", s1.closes(), s2.closes())
			}
		},
	})

	eng.Register(&eng.Scenario{
		Name: "ioproxy-data-eof", Props: []string{"C20"}, MustFinish: true, ObsNames: stdObs,
		Doc:   "ioproxy.ProxyStreams where stream 1 delivers its 4-byte message in every chunking and returns the last chunk together with io.EOF in the same Read (stream 2 sends nothing): every byte arrives at stream 2, both streams are closed, the callback runs exactly twice",
		Quick: eng.Bounds{PB: 2}, Thorough: eng.Bounds{PB: 3},
		Body: func() {
			const cCb = 0
			msg := []byte{1, 2, 3, 4}
			var chunks [][]byte
			start := 0
			for i := 1; i <= len(msg); i++ {
				if i == len(msg) || vsched.Choose(2) == 1 {
					chunks = append(chunks, msg[start:i])
					start = i
				}
			}
			s1 := newProxyStream(1, chunks, true)
			s1.dataEOF = true
			s2 := newProxyStream(2, nil, false)
			ioproxy.ProxyStreams(s1, s2, func() { vsched.CtrAdd(cCb, 1) })
			vsched.Settle()
			if !bytes.Equal(s2.writtenBytes(), msg) {
				fail("C20.ioproxy-data", "stream 1 delivered %v (the last chunk together with EOF); stream 2 received %v", msg, s2.writtenBytes())
			}
			if n := vsched.Ctr(cCb); n != 2 {
				fail("C20.ioproxy-callback", "callback ran %d times, want exactly 2", n)
			}
			if s1.closes() == 0 || s2.closes() == 0 {
				fail("C20.ioproxy-close", "stream closes: s1=%d s2=%d, both must be closed", s1.closes(), s2.closes())
			}
		},
	})

	// ---- unique ----
	eng.Register(&eng.Scenario{
		Name: "unique-history", Props: []string{"C20"}, NoRace: true,
		Doc: "unique.KeyedList and KeyedMap: every sequence of 3 (4 thorough) calls over Set/Append/Remove with argument lists over 2 keys x 2 values (incl. duplicates of a key inside one call), exact and 'same parity' equality: contents model + the notification log replayed on the previous contents reproduces the new contents",
		Direct: func(rep *eng.DirectReport, shard, nshards int, thorough bool) {
			lists := [][]int{{}, {11}, {12}, {21}, {11, 21}, {11, 12}, {12, 11, 22}, {13, 21, 21}}
			depth := 3
			if thorough {
				depth = 4
			}
			key := func(v int) int { return v / 10 }
			for mode := 0; mode < 2; mode++ {
				cmp := func(k int, a, b int) bool { return a == b }
				if mode == 1 {
					cmp = func(k int, a, b int) bool { return a%2 == b%2 }
				}
				// KeyedList: ops 0 Set 1 Append 2 RemoveValues 3 RemoveKeys
				enumSeq(depth, 4*len(lists), shard, nshards, func(seq []int) {
					rep.Cases++
					model := map[int]int{}
					var log [][4]int
					l := unique.NewKeyedList[int, int](key, cmp, func(k int, v int, added, removed bool) {
						log = append(log, [4]int{k, v, int(b2i(added)), int(b2i(removed))})
					}, nil)
					hist := fmt.Sprintf("KeyedList cmp=%d: ", mode)
					for _, x := range seq {
						op, arg := x/len(lists), lists[x%len(lists)]
						hist += fmt.Sprintf("%s%v ", []string{"Set", "Append", "RemoveValues", "RemoveKeys"}[op], arg)
						prev := map[int]int{}
						for k, v := range model {
							prev[k] = v
						}
						log = log[:0]
						apply := func(v int) {
							k := key(v)
							if old, ok := model[k]; !ok || !cmp(k, v, old) {
								model[k] = v
							}
						}
						switch op {
						case 0:
							l.SetValues(arg...)
							seen := map[int]bool{}
							for _, v := range arg {
								apply(v)
								seen[key(v)] = true
							}
							for k := range model {
								if !seen[k] {
									delete(model, k)
								}
							}
						case 1:
							l.AppendValues(arg...)
							for _, v := range arg {
								apply(v)
							}
						case 2:
							l.RemoveValues(arg...)
							for _, v := range arg {
								delete(model, key(v))
							}
						case 3:
							ks := make([]int, len(arg))
							for i, v := range arg {
								ks[i] = key(v)
							}
							l.RemoveKeys(ks...)
							for _, k := range ks {
								delete(model, k)
							}
						}
						if msg := checkUnique(l.GetKeys(), l.GetValues(), key, model, prev, log); msg != "" {
							rep.Fail("C20.unique-list", msg, hist)
							return
						}
					}
					if len(model) > 0 {
						rep.Nontrivial++
					}
					if rep.Cases == 4242 {
						rep.Sample(hist)
					}
				})
				// KeyedMap: ops 0 Set 1 Append 2 RemoveKeys; argument maps built from the lists (last wins)
				enumSeq(depth, 3*len(lists), shard, nshards, func(seq []int) {
					rep.Cases++
					model := map[int]int{}
					var log [][4]int
					m := unique.NewKeyedMap[int, int](cmp, func(k int, v int, added, removed bool) {
						log = append(log, [4]int{k, v, int(b2i(added)), int(b2i(removed))})
					}, nil)
					hist := fmt.Sprintf("KeyedMap cmp=%d: ", mode)
					for _, x := range seq {
						op, lst := x/len(lists), lists[x%len(lists)]
						arg := map[int]int{}
						for _, v := range lst {
							arg[key(v)] = v
						}
						hist += fmt.Sprintf("%s%v ", []string{"Set", "Append", "RemoveKeys"}[op], arg)
						prev := map[int]int{}
						for k, v := range model {
							prev[k] = v
						}
						log = log[:0]
						apply := func(k, v int) {
							if old, ok := model[k]; !ok || !cmp(k, v, old) {
								model[k] = v
							}
						}
						switch op {
						case 0:
							m.SetValues(arg)
							for k, v := range arg {
								apply(k, v)
							}
							for k := range model {
								if _, ok := arg[k]; !ok {
									delete(model, k)
								}
							}
						case 1:
							m.AppendValues(arg)
							for k, v := range arg {
								apply(k, v)
							}
						case 2:
							var ks []int
							for k := range arg {
								ks = append(ks, k)
							}
							m.RemoveKeys(ks...)
							for _, k := range ks {
								delete(model, k)
							}
						}
						if msg := checkUnique(m.GetKeys(), m.GetValues(), nil, model, prev, log); msg != "" {
							rep.Fail("C20.unique-map", msg, hist)
							return
						}
						// the argument map stays the caller's: scribbling on it afterwards changes nothing
						for k := range arg {
							arg[k] = 77
						}
						arg[9] = 99
						if msg := checkUnique(m.GetKeys(), m.GetValues(), nil, model, model, nil); msg != "" {
							rep.Fail("C20.unique-map", "after the caller modified the map it had passed in: "+msg, hist)
							return
						}
					}
					if len(model) > 0 {
						rep.Nontrivial++
					}
				})
			}
			rep.Class("sequences")
		},
	})
}

// checkUnique compares contents with the model and replays the notification log on prev.
func checkUnique(keys, vals []int, key func(int) int, model, prev map[int]int, log [][4]int) string {
	sort.Ints(keys)
	sort.Ints(vals)
	var mk, mv []int
	for k, v := range model {
		mk, mv = append(mk, k), append(mv, v)
	}
	sort.Ints(mk)
	sort.Ints(mv)
	if fmt.Sprint(keys) != fmt.Sprint(mk) || fmt.Sprint(vals) != fmt.Sprint(mv) {
		return fmt.Sprintf("contents keys=%v values=%v, reference model keys=%v values=%v", keys, vals, mk, mv)
	}
	for _, e := range log {
		k, v, added, removed := e[0], e[1], e[2] == 1, e[3] == 1
		old, had := prev[k]
		switch {
		case added && removed:
			return fmt.Sprintf("notification for key %d has both added and removed set", k)
		case added:
			if had {
				return fmt.Sprintf("notification 'added' for key %d which was already present", k)
			}
			prev[k] = v
		case removed:
			if !had || old != v {
				return fmt.Sprintf("notification 'removed' (%d,%d) but the previous contents had (%v,%d)", k, v, had, old)
			}
			delete(prev, k)
		default:
			if !had {
				return fmt.Sprintf("notification 'changed' for key %d which was not present", k)
			}
			prev[k] = v
		}
	}
	if fmt.Sprint(prev) != fmt.Sprint(model) {
		return fmt.Sprintf("replaying the notifications on the previous contents gives %v, the new contents are %v", prev, model)
	}
	return ""
}

// proxyStream is a scripted in-memory stream running under the controlled scheduler.
type proxyStream struct {
	id      int
	chunks  [][]byte
	next    int
	endsEOF bool         // after its message: wait for the eof gate, then return io.EOF
	eof     *vsched.Gate // opened by the harness when the remote side ends
	closed  chan struct{}
	endErr  error // returned instead of io.EOF when set
	strict  bool  // a second Close reports "already closed" (like os.File, net.Conn)
	dataEOF bool  // the last chunk is returned together with io.EOF in one Read (allowed by io.Reader)
}

func newProxyStream(id int, chunks [][]byte, endsEOF bool) *proxyStream {
	return &proxyStream{id: id, chunks: chunks, endsEOF: endsEOF, eof: &vsched.Gate{}, closed: make(chan struct{})}
}

// counters 10*id+{0: closes, 1: bytes written count}; written bytes in 100*id+i
func (s *proxyStream) Read(p []byte) (int, error) {
	if vsched.ChanClosed((<-chan struct{})(s.closed)) {
		return 0, io.ErrClosedPipe
	}
	if s.next < len(s.chunks) {
		c := s.chunks[s.next]
		n := copy(p, c)
		if n < len(c) {
			s.chunks[s.next] = c[n:]
		} else {
			s.next++
		}
		vsched.Point()
		if s.dataEOF && s.next == len(s.chunks) {
			return n, io.EOF
		}
		return n, nil
	}
	label("stream-read")
	defer label("")
	if s.endsEOF {
		// wait for the remote end (gate) or for a local Close
		for !s.eof.IsOpen() && !vsched.ChanClosed((<-chan struct{})(s.closed)) {
			s.eof.Wait()
		}
		if vsched.ChanClosed((<-chan struct{})(s.closed)) {
			return 0, io.ErrClosedPipe
		}
		if s.endErr != nil {
			return 0, s.endErr // the stream fails instead of ending cleanly
		}
		return 0, io.EOF
	}
	<-s.closed
	return 0, io.ErrClosedPipe
}

func (s *proxyStream) Write(p []byte) (int, error) {
	if vsched.ChanClosed((<-chan struct{})(s.closed)) {
		return 0, io.ErrClosedPipe
	}
	for _, b := range p {
		n := int(vsched.CtrAdd(10*s.id+1, 1))
		vsched.CtrSet(100*s.id+n, int64(b))
	}
	vsched.Observe(oVal, int64(s.id), int64(len(p)), int64(p[0]))
	vsched.Point()
	return len(p), nil
}

func (s *proxyStream) Close() error {
	if vsched.CtrAdd(10*s.id, 1) == 1 {
		close(s.closed)
		s.eof.Open()
		return nil
	}
	if s.strict {
		return io.ErrClosedPipe
	}
	return nil
}

func (s *proxyStream) closes() int64 { return vsched.Ctr(10 * s.id) }

func (s *proxyStream) writtenBytes() []byte {
	n := int(vsched.Ctr(10*s.id + 1))
	out := make([]byte, n)
	for i := 1; i <= n; i++ {
		out[i-1] = byte(vsched.Ctr(100*s.id + i))
	}
	return out
}
