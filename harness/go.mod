module verifharness

go 1.22.0

toolchain go1.23.5

require (
	github.com/anishathalye/porcupine v1.3.0
	github.com/aperturerobotics/util v0.0.0
)

require (
	github.com/aperturerobotics/protobuf-go-lite v0.8.0 // indirect
	github.com/pkg/errors v0.9.1 // indirect
)

replace github.com/aperturerobotics/util => /repo
