// Command harness is the model-checking harness: master, workers and all scenarios.
package main

import (
	"verifharness/eng"
	_ "verifharness/scn"
)

func main() { eng.Main() }
